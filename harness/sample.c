/* Correspondence + spec-oracle harness for the `sample` domain (C08: transformed sources are sampled
 * at the documented position, filter and repeat).
 *
 *   sample gen  <seed> <ncases> <ops_out> <impl_out> <oracle_out>
 *   sample exec <ops_in> <impl_out> <oracle_out>
 *
 * One request per line (format documented in lean/Driver/Sample.lean):
 *   S <fmt> <filter> <repeat> <sw> <sh> <m00..m22> <src_x> <src_y> <dw> <dh> <dx> <dy> <w> <h> <np> <params..> <pixels..>
 * Reply: the dw*dh destination words (a8r8g8b8, hex) after
 *   pixman_image_composite32 (PIXMAN_OP_SRC, src, NULL, dest, src_x, src_y, 0, 0, dx, dy, w, h)
 * on a destination prefilled with 0xcdcdcdcd.  The implementation chain is whatever PIXMAN_DISABLE
 * selects in the environment of this process (read once at library initialisation).
 *
 * Oracle lines ("ORACLE <line> <text>"): the Spec evaluated directly (exact integer arithmetic per
 * pixel, no stepping, mathematical repeat) on requests whose sample positions are comfortably inside
 * the 16.16 range; for projective transforms the NEAREST result must be one of the pixels reachable
 * within the stated position tolerance.  "STAT <n> <text>" lines are counters for the evidence. */
#include <stdio.h>
#include <stdlib.h>
#include <string.h>
#include <math.h>
#include <stdarg.h>
#include "pixman.h"
#include "rng.h"

typedef long long ll;
typedef __int128 i128;

#define PREFILL 0xcdcdcdcdu
#define MAXP 4096

typedef struct {
    int fmt, filter, repeat, sw, sh;
    int32_t m[9];
    int sx, sy, dw, dh, dx, dy, w, h;
    int np;
    int32_t params[MAXP];
    uint32_t pix[1024];
} req_t;

static FILE *f_ops, *f_impl, *f_orc;
static long lineno;
static long st_oracle_px, st_oracle_req, st_proj_px, st_dropped_like, st_notjudged;

/* ------------------------------------------------------------------ printing / parsing */
static void print_req (FILE *f, const req_t *r)
{
    fprintf (f, "S %d %d %d %d %d", r->fmt, r->filter, r->repeat, r->sw, r->sh);
    for (int i = 0; i < 9; i++) fprintf (f, " %d", r->m[i]);
    fprintf (f, " %d %d %d %d %d %d %d %d %d", r->sx, r->sy, r->dw, r->dh, r->dx, r->dy, r->w, r->h, r->np);
    for (int i = 0; i < r->np; i++) fprintf (f, " %d", r->params[i]);
    for (int i = 0; i < r->sw * r->sh; i++) fprintf (f, " %x", r->pix[i]);
    fputc ('\n', f);
}

static int parse_req (char *line, req_t *r)
{
    char *save = NULL, *t = strtok_r (line, " \n", &save);
    if (!t || strcmp (t, "S")) return 0;
#define NEXT(v) do { t = strtok_r (NULL, " \n", &save); if (!t) return 0; (v) = strtoll (t, NULL, 10); } while (0)
    NEXT (r->fmt); NEXT (r->filter); NEXT (r->repeat); NEXT (r->sw); NEXT (r->sh);
    for (int i = 0; i < 9; i++) NEXT (r->m[i]);
    NEXT (r->sx); NEXT (r->sy); NEXT (r->dw); NEXT (r->dh); NEXT (r->dx); NEXT (r->dy); NEXT (r->w); NEXT (r->h); NEXT (r->np);
    if (r->np < 0 || r->np > MAXP || r->sw < 1 || r->sh < 1 || r->sw * r->sh > 1024) return 0;
    if (r->dx < 0 || r->dy < 0 || r->w < 0 || r->h < 0 || r->dx + r->w > r->dw || r->dy + r->h > r->dh || r->dw * r->dh > 65536) return 0;
    for (int i = 0; i < r->np; i++) NEXT (r->params[i]);
    for (int i = 0; i < r->sw * r->sh; i++) { t = strtok_r (NULL, " \n", &save); if (!t) return 0; r->pix[i] = strtoul (t, NULL, 16); }
    return 1;
}

/* ------------------------------------------------------------------ the library */
static pixman_format_code_t fmt_code (int f) { return f == 1 ? PIXMAN_x8r8g8b8 : f == 2 ? PIXMAN_a8 : PIXMAN_a8r8g8b8; }
static pixman_filter_t filter_code (int f)
{ return f == 0 ? PIXMAN_FILTER_NEAREST : f == 1 ? PIXMAN_FILTER_BILINEAR : f == 2 ? PIXMAN_FILTER_CONVOLUTION : PIXMAN_FILTER_SEPARABLE_CONVOLUTION; }
static pixman_repeat_t repeat_code (int r)
{ return r == 0 ? PIXMAN_REPEAT_NONE : r == 1 ? PIXMAN_REPEAT_NORMAL : r == 2 ? PIXMAN_REPEAT_PAD : PIXMAN_REPEAT_REFLECT; }

/* the source pixel as the a8r8g8b8 word fetch_pixel_32 yields */
static uint32_t src_word (const req_t *r, int x, int y)
{
    uint32_t p = r->pix[y * r->sw + x];
    if (r->fmt == 1) return p | 0xff000000u;
    if (r->fmt == 2) return (p & 0xff) << 24;
    return p;
}

static int run_lib (const req_t *r, uint32_t *dest)
{
    int sstride_w = r->fmt == 2 ? (r->sw + 3) / 4 : r->sw;
    uint32_t *sbits = calloc ((size_t) sstride_w * r->sh + 4, 4);
    for (int y = 0; y < r->sh; y++)
        for (int x = 0; x < r->sw; x++) {
            if (r->fmt == 2) ((uint8_t *) (sbits + (size_t) y * sstride_w))[x] = r->pix[y * r->sw + x] & 0xff;
            else sbits[(size_t) y * sstride_w + x] = r->pix[y * r->sw + x];
        }
    for (int i = 0; i < r->dw * r->dh; i++) dest[i] = PREFILL;
    pixman_image_t *src = pixman_image_create_bits (fmt_code (r->fmt), r->sw, r->sh, sbits, sstride_w * 4);
    pixman_image_t *dst = pixman_image_create_bits (PIXMAN_a8r8g8b8, r->dw, r->dh, dest, r->dw * 4);
    if (!src || !dst) return 0;
    pixman_transform_t t;
    for (int i = 0; i < 9; i++) t.matrix[i / 3][i % 3] = r->m[i];
    int ok = pixman_image_set_transform (src, &t);
    ok = ok && pixman_image_set_filter (src, filter_code (r->filter), r->np ? (const pixman_fixed_t *) r->params : NULL, r->np);
    pixman_image_set_repeat (src, repeat_code (r->repeat));
    if (ok)
        pixman_image_composite32 (PIXMAN_OP_SRC, src, NULL, dst, r->sx, r->sy, 0, 0, r->dx, r->dy, r->w, r->h);
    pixman_image_unref (src);
    pixman_image_unref (dst);
    free (sbits);
    return ok;
}

/* ------------------------------------------------------------------ the Spec, evaluated directly */
static ll fdiv (ll a, ll b) { ll q = a / b, r = a % b; return (r != 0 && ((r < 0) != (b < 0))) ? q - 1 : q; }
static i128 fdiv128 (i128 a, i128 b) { i128 q = a / b, r = a % b; return (r != 0 && ((r < 0) != (b < 0))) ? q - 1 : q; }
static ll fmod_ (ll a, ll b) { return a - fdiv (a, b) * b; }

/* repeat on Z: returns 0 when the coordinate is outside under NONE */
static int spec_repeat (int mode, ll *c, ll size)
{
    switch (mode) {
    case 0: return *c >= 0 && *c < size;
    case 1: *c = fmod_ (*c, size); return 1;
    case 2: *c = *c < 0 ? 0 : *c > size - 1 ? size - 1 : *c; return 1;
    default: { ll m = fmod_ (*c, 2 * size); *c = m < size ? m : 2 * size - 1 - m; return 1; }
    }
}
static uint32_t spec_pixel (const req_t *r, ll x, ll y)
{
    if (!spec_repeat (r->repeat, &x, r->sw) || !spec_repeat (r->repeat, &y, r->sh)) return 0;
    return src_word (r, (int) x, (int) y);
}
static int chan (uint32_t p, int c) { return (p >> (8 * c)) & 0xff; }

/* filtered value at the 16.16 position (X, Y) */
static uint32_t spec_filtered (const req_t *r, ll X, ll Y)
{
    if (r->filter == 0)
        return spec_pixel (r, fdiv (X - 1, 65536), fdiv (Y - 1, 65536));
    if (r->filter == 1) {
        ll x1 = X - 32768, y1 = Y - 32768;
        ll ix = fdiv (x1, 65536), iy = fdiv (y1, 65536);
        ll dx = 2 * (fmod_ (x1, 65536) >> 9), dy = 2 * (fmod_ (y1, 65536) >> 9);      /* 7-bit weights, in 1/256 */
        uint32_t tl = spec_pixel (r, ix, iy), tr = spec_pixel (r, ix + 1, iy), bl = spec_pixel (r, ix, iy + 1), br = spec_pixel (r, ix + 1, iy + 1);
        uint32_t out = 0;
        for (int c = 0; c < 4; c++) {
            ll v = chan (tl, c) * (256 - dx) * (256 - dy) + chan (tr, c) * dx * (256 - dy) + chan (bl, c) * (256 - dx) * dy + chan (br, c) * dx * dy;
            out |= (uint32_t) (v >> 16) << (8 * c);
        }
        return out;
    }
    {
        int cw = r->params[0] >> 16, ch = r->params[1] >> 16;
        const int32_t *xk, *yk = NULL;
        if (r->filter == 3) {
            int xb = r->params[2] >> 16, yb = r->params[3] >> 16;
            /* round to the middle of the phase: floor (x * 2^bits) / 2^bits + 1 / 2^(bits+1) */
            ll px = fdiv (X * (1ll << xb), 65536), py = fdiv (Y * (1ll << yb), 65536);
            X = px * (65536 >> xb) + ((65536 >> xb) >> 1);
            Y = py * (65536 >> yb) + ((65536 >> yb) >> 1);
            xk = r->params + 4 + fmod_ (px, 1ll << xb) * cw;
            yk = r->params + 4 + (1 << xb) * cw + fmod_ (py, 1ll << yb) * ch;
        } else
            xk = r->params + 2;
        /* first pixel: k = floor (x - (width - 1) / 2 - e) */
        ll kx = fdiv (X - 1 - (ll) (cw - 1) * 32768, 65536), ky = fdiv (Y - 1 - (ll) (ch - 1) * 32768, 65536);
        ll tot[4] = { 0, 0, 0, 0 };
        for (int i = 0; i < ch; i++)
            for (int j = 0; j < cw; j++) {
                ll f = r->filter == 3 ? (((ll) yk[i] * xk[j] + 0x8000) >> 16) : xk[i * cw + j];
                if (!f) continue;
                uint32_t p = spec_pixel (r, kx + j, ky + i);
                for (int c = 0; c < 4; c++) tot[c] += chan (p, c) * f;
            }
        uint32_t out = 0;
        for (int c = 0; c < 4; c++) {
            ll v = fdiv (tot[c] + 0x8000, 65536);
            v = v < 0 ? 0 : v > 255 ? 255 : v;
            out |= (uint32_t) v << (8 * c);
        }
        return out;
    }
}

static void oracle_line (const char *fmt, ...)
{
    va_list ap; va_start (ap, fmt);
    fprintf (f_orc, "ORACLE %ld ", lineno);
    vfprintf (f_orc, fmt, ap);
    fputc ('\n', f_orc);
    va_end (ap);
}

/* exact homogeneous image of the centre of source-space pixel (px, py): units 2^-32 */
static void exact_image (const req_t *r, ll px, ll py, i128 N[3])
{
    ll cx = px * 65536 + 32768, cy = py * 65536 + 32768;
    for (int k = 0; k < 3; k++)
        N[k] = (i128) r->m[3 * k] * cx + (i128) r->m[3 * k + 1] * cy + (i128) r->m[3 * k + 2] * 65536;
}

static void run_oracle (const req_t *r, const uint32_t *dest)
{
    int affine = r->m[6] == 0 && r->m[7] == 0 && r->m[8] == 65536;
    /* untouched outside the rectangle */
    for (int y = 0; y < r->dh; y++)
        for (int x = 0; x < r->dw; x++)
            if ((x < r->dx || x >= r->dx + r->w || y < r->dy || y >= r->dy + r->h) && dest[y * r->dw + x] != PREFILL) {
                oracle_line ("outside: destination pixel (%d,%d) outside the composite rectangle changed [%s]", x, y, "outside-rect");
                return;
            }
    if (r->w == 0 || r->h == 0) return;
    /* composite coordinates are 16 bit (analyze_extent: the by-one expanded extents must fit int16_t) */
    if (r->sx - 1 < -32768 || r->sy - 1 < -32768 || r->sx + r->w + 1 > 32767 || r->sy + r->h + 1 > 32767) { st_notjudged++; return; }
    /* kernels whose channel sums can leave int32 wrap in the code (unsigned accumulators); the Spec is over Z */
    if (r->filter >= 2) {
        int cw = r->params[0] >> 16, ch = r->params[1] >> 16;
        ll worst = 0;
        if (r->filter == 2) { ll t = 0; for (int i = 0; i < cw * ch; i++) t += llabs ((ll) r->params[2 + i]); worst = t; }
        else {
            int xb = r->params[2] >> 16, yb = r->params[3] >> 16;
            ll mx = 0, my = 0;
            for (int ph = 0; ph < (1 << xb); ph++) { ll t = 0; for (int j = 0; j < cw; j++) t += llabs ((ll) r->params[4 + ph * cw + j]); if (t > mx) mx = t; }
            for (int ph = 0; ph < (1 << yb); ph++) { ll t = 0; for (int j = 0; j < ch; j++) t += llabs ((ll) r->params[4 + (1 << xb) * cw + ph * ch + j]); if (t > my) my = t; }
            worst = ((mx * my) >> 16) + cw * ch;
        }
        if (worst * 255 + 0x8000 > 2147483647ll) { st_notjudged++; return; }
    }
    /* regime in which the Spec is evaluated: positions of the by-one expanded extents well inside 16.16,
       the homogeneous coordinate keeps one sign and stays away from 0 */
    int wsign = 0;
    double maxp = 0, minw = 1e300;
    for (int c = 0; c < 4; c++) {
        i128 N[3];
        exact_image (r, (c & 1) ? r->sx - 1 : r->sx + r->w, (c & 2) ? r->sy - 1 : r->sy + r->h, N);
        double X = (double) N[0], Y = (double) N[1], W = (double) N[2];
        if (W == 0) { st_notjudged++; return; }
        int s = W > 0 ? 1 : -1;
        if (wsign && s != wsign) { st_notjudged++; return; }
        wsign = s;
        if (fabs (X / W) > maxp) maxp = fabs (X / W);
        if (fabs (Y / W) > maxp) maxp = fabs (Y / W);
        if (fabs (W) / 4294967296.0 < minw) minw = fabs (W) / 4294967296.0;
    }
    if (maxp > 16000 || minw < 1.0 / 64) { st_notjudged++; return; }
    if (!affine && r->filter != 0) { st_notjudged++; return; }
    st_oracle_req++;
    /* do the homogeneous coordinates of every pixel of the rectangle fit pixman_fixed_t?  (linear along a row) */
    int hom_ok = 1;
    for (int j = 0; j < r->h; j++)
        for (int e = 0; e < 2; e++) {
            i128 N[3];
            exact_image (r, e ? r->sx + r->w - 1 : r->sx, r->sy + j, N);
            for (int k = 0; k < 3; k++) {
                i128 v = fdiv128 (N[k] + 32768, 65536);
                if (v > 2147483647ll || v < -2147483648ll) hom_ok = 0;
            }
        }
    int solid = r->sw == 1 && r->sh == 1 && r->repeat != 0;
    for (int j = 0; j < r->h; j++)
        for (int i = 0; i < r->w; i++) {
            uint32_t got = dest[(r->dy + j) * r->dw + r->dx + i];
            i128 N[3];
            exact_image (r, r->sx + i, r->sy + j, N);
            if (affine) {
                /* the position is the exact image rounded once to 16.16 (ties up) */
                ll X = (ll) fdiv128 (N[0] + 32768, 65536), Y = (ll) fdiv128 (N[1] + 32768, 65536);
                uint32_t want = spec_filtered (r, X, Y);
                st_oracle_px++;
                if (got != want) {
                    oracle_line ("spec: pixel (%d,%d) of the rectangle is %08x, the Spec gives %08x at position (%lld,%lld)/65536 [%s]",
                                 i, j, got, want, X, Y, solid ? (r->filter == 2 ? "solid-1x1-repeat convolution" : r->filter == 3 ? "solid-1x1-repeat separable" : "solid-1x1-repeat") : "affine");
                    return;
                }
            } else {
                /* NEAREST, projective: any pixel reachable within the position tolerance
                   (1 + 32768 (1 + |p|) / |w|) / 65536 of the exact position p = X / W */
                long double W = (long double) N[2], px = (long double) N[0] / W, py = (long double) N[1] / W;
                long double wfix = fabsl (W) / 65536.0L;                       /* |w| in 16.16 units */
                long double tx = (1.0L + 32768.0L * (1 + fabsl (px)) / wfix) * 1.001L + 1e-6L;
                long double ty = (1.0L + 32768.0L * (1 + fabsl (py)) / wfix) * 1.001L + 1e-6L;
                ll xlo = (ll) floorl ((px * 65536.0L - tx - 1) / 65536.0L), xhi = (ll) floorl ((px * 65536.0L + tx - 1) / 65536.0L);
                ll ylo = (ll) floorl ((py * 65536.0L - ty - 1) / 65536.0L), yhi = (ll) floorl ((py * 65536.0L + ty - 1) / 65536.0L);
                int ok = 0;
                for (ll yy = ylo; yy <= yhi && !ok; yy++)
                    for (ll xx = xlo; xx <= xhi && !ok; xx++)
                        if (spec_pixel (r, xx, yy) == got) ok = 1;
                st_proj_px++;
                if (!ok) {
                    oracle_line ("spec: pixel (%d,%d) of the rectangle is %08x; no source pixel within the tolerance of the exact position (%.6Lf,%.6Lf) has that value [%s]",
                                 i, j, got, px, py, hom_ok ? "projective-nearest" : "projective homogeneous-overflow");
                    return;
                }
            }
        }
}

static void run_request (const req_t *r)
{
    static uint32_t dest[65536] __attribute__ ((aligned (64)));     /* pixdrv samplefast derives the tile split of blt_rotated_* from (dy*dw+dx) % 16 */
    lineno++;
    int ok = run_lib (r, dest);
    if (!ok) { fprintf (f_impl, "SETUP-FAILED\n"); return; }
    for (int i = 0; i < r->dw * r->dh; i++) fprintf (f_impl, i ? " %08x" : "%08x", dest[i]);
    fputc ('\n', f_impl);
    run_oracle (r, dest);
}

/* ------------------------------------------------------------------ generator */
static int pick (const int *v, int n) { return v[rng_n (n)]; }

static uint32_t gen_word (int kind)
{
    static const int ev[] = { 0, 1, 0x7f, 0x80, 0xfe, 0xff };
    uint32_t p = 0;
    for (int c = 0; c < 4; c++) {
        int v = kind == 0 ? rng_n (256) : kind == 1 ? pick (ev, 6) : rng_chance (50) ? pick (ev, 6) : rng_n (256);
        p |= (uint32_t) v << (8 * c);
    }
    return p;
}

static void gen_pixels (req_t *r)
{
    int kind = rng_n (10);
    int n = r->sw * r->sh;
    uint32_t c = gen_word (rng_n (3));
    for (int i = 0; i < n; i++) {
        if (kind == 0) r->pix[i] = c;                                              /* constant image */
        else if (kind == 1) r->pix[i] = (uint32_t) (i + 1) * 0x01010101u * (255 / (n > 255 ? 255 : n));   /* ramp, all channels equal */
        else if (kind == 2) r->pix[i] = 0xff000000u | (uint32_t) ((i % r->sw) * 255 / (r->sw > 1 ? r->sw - 1 : 1)) << 16 | (uint32_t) ((i / r->sw) * 255 / (r->sh > 1 ? r->sh - 1 : 1));
        else r->pix[i] = gen_word (kind & 1 ? 0 : 2);
    }
    if (r->fmt == 2) for (int i = 0; i < n; i++) r->pix[i] &= 0xff;
}

/* normalise v[0..n) so that it sums to 65536 (last entry takes the remainder) */
static void normalise (int32_t *v, int n)
{
    ll s = 0;
    for (int i = 0; i < n; i++) s += v[i];
    if (s > -16384 && s < 16384) { v[0] += (int32_t) (65536 - s); return; }      /* keeps |v[i]| below 2^18 */
    ll t = 0;
    for (int i = 0; i < n; i++) { v[i] = (int32_t) ((ll) v[i] * 65536 / s); t += v[i]; }
    v[n - 1] += (int32_t) (65536 - t);
}

static void gen_kernel (int32_t *v, int n, int kind)
{
    for (int i = 0; i < n; i++) {
        switch (kind) {
        case 0: v[i] = rng_range (0, 65536); break;                         /* positive */
        case 1: v[i] = rng_range (-40000, 90000); break;                    /* negative lobes */
        case 2: v[i] = rng_chance (40) ? 0 : rng_range (-65536, 131072); break;   /* zeros (skipped taps) */
        case 3: v[i] = 65536 / n; break;                                     /* box */
        default: v[i] = rng_range (-200000, 200000); break;                  /* not normalised */
        }
    }
    if (kind <= 3 && !(kind == 2 && rng_chance (30))) normalise (v, n);
    if (kind == 1 && rng_chance (30)) for (int i = 0; i < n; i++) v[i] = -v[i];      /* sums to -1: everything clamps to 0 */
}

static void gen_filter (req_t *r)
{
    r->np = 0;
    if (r->filter == 2) {
        int cw = rng_chance (60) ? rng_range (1, 3) : rng_range (1, 5), ch = rng_chance (60) ? rng_range (1, 3) : rng_range (1, 5);
        r->params[0] = cw << 16; r->params[1] = ch << 16;
        gen_kernel (r->params + 2, cw * ch, rng_n (5));
        r->np = 2 + cw * ch;
    } else if (r->filter == 3) {
        if (rng_chance (35)) {
            static const int ks[] = { PIXMAN_KERNEL_IMPULSE, PIXMAN_KERNEL_BOX, PIXMAN_KERNEL_LINEAR, PIXMAN_KERNEL_CUBIC, PIXMAN_KERNEL_GAUSSIAN, PIXMAN_KERNEL_LANCZOS2 };
            int n = 0;
            int rx = pick (ks, 6), ry = pick (ks, 6), sxk = pick (ks, 6), syk = pick (ks, 6);
            if (rx == PIXMAN_KERNEL_IMPULSE && sxk == PIXMAN_KERNEL_IMPULSE) sxk = PIXMAN_KERNEL_BOX;     /* IMPULSE x IMPULSE is C18's subject */
            if (ry == PIXMAN_KERNEL_IMPULSE && syk == PIXMAN_KERNEL_IMPULSE) syk = PIXMAN_KERNEL_BOX;
            pixman_fixed_t *p = pixman_filter_create_separable_convolution (&n, rng_range (20000, 200000), rng_range (20000, 200000),
                                                                           rx, ry, sxk, syk, rng_n (4), rng_n (4));
            if (p && n <= 600) { memcpy (r->params, p, n * sizeof (int32_t)); r->np = n; }
            free (p);
        }
        if (!r->np) {
            int cw = rng_range (1, 4), ch = rng_range (1, 4), xb = rng_n (4), yb = rng_n (4);
            if (rng_chance (5)) xb = 16 - rng_n (2) * 12, cw = 1;       /* 2^16 (or 2^4) phases of width 1 */
            if (xb == 16) { xb = 4; }
            r->params[0] = cw << 16; r->params[1] = ch << 16; r->params[2] = xb << 16; r->params[3] = yb << 16;
            int k = rng_n (5), o = 4;
            for (int ph = 0; ph < (1 << xb); ph++, o += cw) gen_kernel (r->params + o, cw, k);
            for (int ph = 0; ph < (1 << yb); ph++, o += ch) gen_kernel (r->params + o, ch, rng_chance (70) ? k : rng_n (5));
            r->np = o;
        }
    }
}

static int32_t clamp32 (double v) { return v > 2147483647.0 ? 2147483647 : v < -2147483648.0 ? (int32_t) (-2147483647 - 1) : (int32_t) llround (v); }

/* a source position (16.16) on or next to something that matters */
static ll interesting_pos (int size)
{
    ll base = (ll) rng_range (-size - 2, 2 * size + 2) * 65536;
    switch (rng_n (8)) {
    case 0: return base;                                   /* exactly on a pixel boundary */
    case 1: return base + 1;
    case 2: return base - 1;
    case 3: return base + 32768;                           /* exactly a pixel centre */
    case 4: return base + 32768 + rng_range (-2, 2);
    case 5: return base + rng_range (-600, 600);           /* around a bilinear weight step (512) */
    default: return base + rng_n (65536);
    }
}

static void gen_transform (req_t *r)
{
    double a = 1, b = 0, c = 0, d = 1;       /* linear part */
    int want_cover = 0;
    int cls = rng_n (100);
    static const double nice[] = { 1, 1, 2, 0.5, 3, 1.0 / 3, 1.5, 0.25, 4, 0.75, 1.25 };
    if (cls < 8) { /* identity / translation */ }
    else if (cls < 30) {                       /* scale, possibly negative, tiny, huge */
        a = nice[rng_n (11)]; d = rng_chance (50) ? a : nice[rng_n (11)];
        if (rng_chance (25)) a = -a;
        if (rng_chance (25)) d = -d;
        if (rng_chance (12)) a = rng_chance (50) ? 1.0 / rng_range (100, 60000) : rng_range (20, 3000);
        if (rng_chance (12)) d = rng_chance (50) ? 1.0 / rng_range (100, 60000) : rng_range (20, 3000);
        if (rng_chance (20)) { a += rng_range (-3, 3) / 65536.0; d += rng_range (-3, 3) / 65536.0; }
    } else if (cls < 42) {                     /* quarter turns, flips */
        switch (rng_n (4)) { case 0: a = 0; b = -1; c = 1; d = 0; break; case 1: a = -1; d = -1; break; case 2: a = 0; b = 1; c = -1; d = 0; break; default: a = 0; b = 1; c = 1; d = 0; break; }
        if (rng_chance (30)) { double s = nice[rng_n (11)]; a *= s; b *= s; c *= s; d *= s; }
        else if (rng_chance (40)) { r->filter = 0; r->np = 0; want_cover = 1; }        /* the blt_rotated fast paths: exact quarter turn, NEAREST, samples cover */
    } else if (cls < 52) {                     /* scale with y unit non-zero, shears */
        a = nice[rng_n (11)]; d = nice[rng_n (11)];
        b = rng_range (-4, 4) / 4.0; c = rng_range (-4, 4) / 4.0;
    } else {                                   /* any angle */
        double th = rng_n (36000) / 36000.0 * 2 * M_PI, s1 = nice[rng_n (11)], s2 = rng_chance (60) ? s1 : nice[rng_n (11)];
        a = cos (th) * s1; b = -sin (th) * s2; c = sin (th) * s1; d = cos (th) * s2;
    }
    r->m[0] = clamp32 (a * 65536); r->m[1] = clamp32 (b * 65536); r->m[3] = clamp32 (c * 65536); r->m[4] = clamp32 (d * 65536);
    r->m[6] = r->m[7] = 0; r->m[8] = 65536;
    /* translation: the centre of the first pixel of the rectangle lands on an interesting source position */
    ll cx = (ll) r->sx * 65536 + 32768, cy = (ll) r->sy * 65536 + 32768;
    if (rng_chance (30)) { cx += (ll) rng_n (r->w) * 65536; cy += (ll) rng_n (r->h) * 65536; }   /* … or of some other pixel */
    ll tx = interesting_pos (r->sw), ty = interesting_pos (r->sh);
    if (r->filter == 1 && rng_chance (50)) { tx += 32768; ty += 32768; }
    if (rng_chance (4)) tx += (ll) (rng_chance (50) ? 1 : -1) * rng_range (29990, 32767) * 65536;   /* near the 16.16 limits */
    if (rng_chance (4)) ty += (ll) (rng_chance (50) ? 1 : -1) * rng_range (29990, 32767) * 65536;
    r->m[2] = clamp32 ((double) (tx - fdiv ((ll) r->m[0] * cx + (ll) r->m[1] * cy + 32768, 65536)));
    r->m[5] = clamp32 ((double) (ty - fdiv ((ll) r->m[3] * cx + (ll) r->m[4] * cy + 32768, 65536)));
    if (cls < 8) {
        if (cls < 2) r->m[2] = r->m[5] = 0;                                                   /* identity */
        else if (cls < 5) { r->m[2] = rng_range (-r->sw - 2, r->sw + 2) * 65536; r->m[5] = rng_range (-r->sh - 2, r->sh + 2) * 65536; }   /* whole pixels */
    }
    if (cls < 30 && rng_chance (8)) {
        /* far translation undone by a far source offset: the coordinates pass close to the 16.16 limits
           (compute_image_info's "magic_limit" note: BILINEAR -> NEAREST reduction near 32K) */
        int T = rng_range (29990, 32760) * (rng_chance (50) ? 1 : -1);
        if (rng_chance (50)) { r->m[0] = rng_chance (50) ? 65536 : -65536; r->m[1] = 0; }
        double a0 = r->m[0] / 65536.0;
        if (fabs (a0) >= 0.5 && fabs (a0) <= 2) {
            r->sx = (int) (-T / a0) + rng_range (-2, r->sw + 2);
            if (r->sx < -32760) r->sx = -32760;
            if (r->sx + r->w > 32760) r->sx = 32760 - r->w;
            ll c0 = (ll) r->sx * 65536 + 32768, c1 = (ll) r->sy * 65536 + 32768;
            ll want = (ll) rng_range (-1, r->sw) * 65536 + (rng_chance (60) ? 32768 : rng_chance (50) ? 0 : rng_n (65536));
            r->m[2] = clamp32 ((double) (want - fdiv ((ll) r->m[0] * c0 + (ll) r->m[1] * c1 + 32768, 65536)));
        }
    }
    if (cls >= 8 && (want_cover || rng_chance (25))) {
        /* cover: shrink the rectangle until every sample (and its bilinear neighbour) lies inside the source,
           so that the COVER variants of the specialised loops are selected */
        for (;;) {
            ll spanx = llabs ((ll) r->m[0]) * (r->w - 1) + llabs ((ll) r->m[1]) * (r->h - 1);
            ll spany = llabs ((ll) r->m[3]) * (r->w - 1) + llabs ((ll) r->m[4]) * (r->h - 1);
            ll roomx = (ll) (r->sw - 1) * 65536 - spanx, roomy = (ll) (r->sh - 1) * 65536 - spany;
            if (roomx >= 0 && roomy >= 0) {
                /* minimum over the rectangle of the linear part, relative to pixel (0,0) of the rectangle */
                ll minx = (r->m[0] < 0 ? (ll) r->m[0] * (r->w - 1) : 0) + (r->m[1] < 0 ? (ll) r->m[1] * (r->h - 1) : 0);
                ll miny = (r->m[3] < 0 ? (ll) r->m[3] * (r->w - 1) : 0) + (r->m[4] < 0 ? (ll) r->m[4] * (r->h - 1) : 0);
                ll c0x = (ll) r->sx * 65536 + 32768, c0y = (ll) r->sy * 65536 + 32768;
                ll wantx = 32768 + (rng_chance (50) ? 0 : rng_chance (50) ? roomx : (ll) (rng_u64 () % (uint64_t) (roomx + 1)));
                ll wanty = 32768 + (rng_chance (50) ? 0 : rng_chance (50) ? roomy : (ll) (rng_u64 () % (uint64_t) (roomy + 1)));
                r->m[2] = clamp32 ((double) (wantx - minx - fdiv ((ll) r->m[0] * c0x + (ll) r->m[1] * c0y + 32768, 65536)));
                r->m[5] = clamp32 ((double) (wanty - miny - fdiv ((ll) r->m[3] * c0x + (ll) r->m[4] * c0y + 32768, 65536)));
                break;
            }
            if (r->w > 1 && (roomx < 0 || r->h == 1)) r->w--; else if (r->h > 1) r->h--; else break;
            if (r->w == 1 && r->h == 1) continue;
        }
    }
}

/* make the affine map of r projective: p' = p / (g·(x,y) + 1), optionally rescaled homogeneously */
static void make_projective (req_t *r)
{
    int kind = rng_n (10);
    if (kind < 5) {
        r->m[6] = rng_range (-600, 600); r->m[7] = rng_range (-600, 600);
        r->m[8] = 65536 + rng_range (-3000, 3000);
    } else if (kind < 7) {      /* affine map written with another homogeneous scale only */
        r->m[8] = 65536;
    } else {
        r->m[6] = rng_range (-6000, 6000); r->m[7] = rng_range (-6000, 6000);
        r->m[8] = rng_chance (50) ? 65536 : rng_range (1, 200000);
    }
}
static int rescale (req_t *r, int k, int div)
{
    for (int i = 0; i < 9; i++) {
        ll v = (ll) r->m[i] * k;
        if (div > 1) v = v / div;
        if (v > 2147483647ll || v < -2147483648ll) return 0;
    }
    for (int i = 0; i < 9; i++) r->m[i] = (int32_t) ((ll) r->m[i] * k / (div > 1 ? div : 1));
    return 1;
}

static void gen_geometry (req_t *r)
{
    static const int ws[] = { 1, 1, 2, 3, 4, 5, 7, 8, 9, 13, 16, 17, 24 };
    r->w = pick (ws, 13); r->h = rng_chance (60) ? 1 : rng_range (2, 4);
    r->dx = rng_chance (60) ? 0 : rng_range (1, 5); r->dy = rng_chance (70) ? 0 : rng_range (1, 3);
    r->dw = r->dx + r->w + (rng_chance (60) ? 0 : rng_range (1, 3)); r->dh = r->dy + r->h + (rng_chance (70) ? 0 : 1);
    r->sx = rng_chance (50) ? 0 : rng_range (-4, 12); r->sy = rng_chance (50) ? 0 : rng_range (-4, 12);
    if (rng_chance (2)) r->sx = rng_chance (50) ? rng_range (32700, 32767) - r->w : -rng_range (32700, 32768);
}

static void gen_cases (int ncases)
{
    static req_t r;
    int done = 0;
    while (done < ncases) {
        memset (&r, 0, sizeof r);
        r.fmt = rng_chance (70) ? 0 : rng_range (1, 2);
        r.filter = rng_n (4); r.repeat = rng_n (4);
        r.sw = rng_chance (50) ? rng_range (1, 3) : rng_range (1, 9); r.sh = rng_chance (50) ? rng_range (1, 3) : rng_range (1, 9);
        if (rng_chance (6)) {       /* one long dimension: tiles and alignment splits of the rotate / cover loops */
            if (rng_chance (50)) { r.sw = rng_range (10, 48); r.sh = rng_range (1, 4); } else { r.sh = rng_range (10, 48); r.sw = rng_range (1, 4); }
        }
        gen_pixels (&r);
        gen_filter (&r);
        gen_geometry (&r);
        gen_transform (&r);
        int proj = rng_chance (30);
        if (proj) make_projective (&r);
        print_req (f_ops, &r); run_request (&r); done++;
        if (proj && rng_chance (60)) {
            /* the same map with every entry multiplied by k (old defect F: k = 3 with negative x) */
            static const int ks[] = { 3, 3, 2, 5, -1, -3, 7, 100, 1000 };
            req_t q = r;
            int k = pick (ks, 9);
            if (rescale (&q, k, 1)) { print_req (f_ops, &q); run_request (&q); done++; }
        }
    }
}

static long st_wide_px;
/* ------------------------------------------------------------------ wide pipeline, BILINEAR (spec oracle only)
 * The float fetchers are not modelled; their bilinear single-pixel reader is judged against the Spec directly: an
 * rgba_float source under a pure translation, every repeat mode, SRC into rgba_float.  Tap (x1,y1) = floor of the
 * sample position minus one half, weights = its 16-bit fraction / 65536, the four taps are repeat-mapped independently
 * (NONE: taps outside the image are transparent).  Evaluated in double; tolerance 1e-5 (binary32 rounding is ~1e-7). */
static int spec_rep (int c, int n, int rep, int *inside)
{
    *inside = 1;
    if (rep == 0) { if (c < 0 || c >= n) *inside = 0; return c; }
    if (rep == 1) { c %= n; if (c < 0) c += n; return c; }
    if (rep == 2) return c < 0 ? 0 : c >= n ? n - 1 : c;
    c %= 2 * n; if (c < 0) c += 2 * n; return c >= n ? 2 * n - 1 - c : c;
}
static void gen_float_bilinear (int n)
{
    for (int it = 0; it < n; it++) {
        int w = rng_range (1, 6), h = rng_range (1, 5), rep = rng_n (4), W = 8, H = 4, bad = 0;
        int32_t tx = rng_range (-4 * 65536, (w + 3) * 65536), ty = rng_range (-4 * 65536, (h + 3) * 65536);
        if (rng_chance (25)) tx &= ~0xffff; if (rng_chance (25)) ty &= ~0xffff; if (rng_chance (20)) tx = (tx & ~0xffff) | 0x8000;
        float *sb = calloc ((size_t) w * h * 4, sizeof (float)), *db = calloc ((size_t) W * H * 4, sizeof (float));
        for (int i = 0; i < w * h * 4; i++) sb[i] = (float) rng_n (1 << 16) / 65536.f;
        pixman_image_t *s = pixman_image_create_bits (PIXMAN_rgba_float, w, h, (uint32_t *) sb, w * 16), *d = pixman_image_create_bits (PIXMAN_rgba_float, W, H, (uint32_t *) db, W * 16);
        pixman_transform_t t; pixman_transform_init_identity (&t); t.matrix[0][2] = tx; t.matrix[1][2] = ty;
        static const pixman_repeat_t reps[] = { PIXMAN_REPEAT_NONE, PIXMAN_REPEAT_NORMAL, PIXMAN_REPEAT_PAD, PIXMAN_REPEAT_REFLECT };
        if (!s || !d) { if (s) pixman_image_unref (s); if (d) pixman_image_unref (d); free (sb); free (db); continue; }
        pixman_image_set_transform (s, &t); pixman_image_set_filter (s, PIXMAN_FILTER_BILINEAR, NULL, 0); pixman_image_set_repeat (s, reps[rep]);
        pixman_image_composite32 (PIXMAN_OP_SRC, s, NULL, d, 0, 0, 0, 0, 0, 0, W, H);
        for (int y = 0; y < H && !bad; y++) for (int x = 0; x < W && !bad; x++) {
            int64_t X = (int64_t) x * 65536 + tx, Y = (int64_t) y * 65536 + ty;
            int x1 = (int) (X >> 16), y1 = (int) (Y >> 16); double fx = (double) (X & 0xffff) / 65536.0, fy = (double) (Y & 0xffff) / 65536.0;
            for (int c = 0; c < 4 && !bad; c++) {
                double acc = 0;
                for (int k = 0; k < 4; k++) {
                    int ix, iy, cx = spec_rep (x1 + (k & 1), w, rep, &ix), cy = spec_rep (y1 + (k >> 1), h, rep, &iy);
                    double wgt = ((k & 1) ? fx : 1 - fx) * ((k >> 1) ? fy : 1 - fy);
                    if (ix && iy) acc += wgt * (double) sb[(cy * w + cx) * 4 + c];
                }
                double got = db[(y * W + x) * 4 + c];
                if (!(got - acc < 1e-5 && acc - got < 1e-5)) {
                    oracle_line ("wide-bilinear: rgba_float %dx%d source, repeat %d, translation (%d,%d)/65536, BILINEAR, SRC into rgba_float: pixel (%d,%d) channel %d is %.7f, Spec %.7f",
                                 w, h, rep, tx, ty, x, y, c, got, acc);
                    bad = 1; }
            } }
        st_wide_px += (long) W * H;
        pixman_image_unref (s); pixman_image_unref (d); free (sb); free (db);
    }
}

int main (int argc, char **argv)
{
    if (argc >= 7 && !strcmp (argv[1], "gen")) {
        rng_seed (strtoull (argv[2], NULL, 10));
        f_ops = fopen (argv[4], "w"); f_impl = fopen (argv[5], "w"); f_orc = fopen (argv[6], "w");
        if (!f_ops || !f_impl || !f_orc) return 2;
        gen_cases (atoi (argv[3]));
        { long keep = lineno; lineno = 0; gen_float_bilinear (400); lineno = keep; }
    } else if (argc >= 5 && !strcmp (argv[1], "exec")) {
        FILE *in = fopen (argv[2], "r");
        f_impl = fopen (argv[3], "w"); f_orc = fopen (argv[4], "w");
        if (!in || !f_impl || !f_orc) return 2;
        static char line[1 << 20];
        static req_t r;
        while (fgets (line, sizeof line, in)) {
            if (line[0] == '#' || line[0] == '\n') { lineno++; fprintf (f_impl, "\n"); continue; }
            memset (&r, 0, sizeof r);
            if (!parse_req (line, &r)) { lineno++; fprintf (f_impl, "BAD-REQUEST\n"); continue; }
            run_request (&r);
        }
    } else {
        fprintf (stderr, "usage: sample gen <seed> <n> <ops> <impl> <oracle> | sample exec <ops> <impl> <oracle>\n");
        return 2;
    }
    fprintf (f_orc, "STAT %ld requests judged by the Spec oracle\n", st_oracle_req);
    fprintf (f_orc, "STAT %ld pixels compared with the Spec (affine, exact)\n", st_oracle_px);
    fprintf (f_orc, "STAT %ld pixels judged within tolerance (projective nearest)\n", st_proj_px);
    fprintf (f_orc, "STAT %ld pixels of the wide (float) bilinear reader compared with the Spec\n", st_wide_px);
    fprintf (f_orc, "STAT %ld requests outside the oracle's regime (range, pole, projective non-nearest)\n", st_notjudged);
    return 0;
}

/* Stand-alone reproduction (no glyphs) of finding F1 of C17.
 *
 * The general bits-image fetchers skip source pixels whose mask value is zero:
 *     pixman/pixman-bits-image.c  __bits_image_fetch_affine_no_alpha ()  `if (!mask || mask[i])`  (line 516)
 *     pixman/pixman-bits-image.c  __bits_image_fetch_general ()          `if (!mask || mask[i])`  (line 673)
 * `mask` is a `const uint32_t *` and `i` the pixel index.  In the wide pipeline (ITER_WIDE: float
 * formats, 10-bit formats, sRGB, dithering, and every operator for which operator_needs_division()
 * holds, e.g. PIXMAN_OP_SATURATE) the mask scanline holds four floats per pixel, so `mask[i]`
 * tests float (i % 4) of pixel (i / 4) instead of pixel i: a source pixel is skipped although its
 * mask pixel is not zero (below: mask pixel 0 has alpha 0.0 but colour 1.0, component alpha), and the
 * combiner then reads whatever the scanline buffer held before: zeros in the first row of a
 * composite call, the pixel of the previous row afterwards.  The result of ONE composite call is
 * therefore not the result of the same rectangle composited row by row; neither is the correct value.
 *
 * pixman_composite_glyphs_no_mask issues one call per (clip box x glyph box), pixman_image_composite32
 * coalesces vertically adjacent clip boxes: with a multi-rectangle clip the two differ (C17 replay
 * `draw N 13 b8g8r8a8 24 2 2 5 1 21 5 -2 -1 17 4 bits x8r8g8b8 24 11 3 ...` in corpus/glyph/draw.txt).
 *
 * build: gcc -I <build>/pixman -I /repo/pixman widemask_skip.c <build>/pixman/libpixman-1.a -lm -lpthread
 * expected output on the affected library: one line marked DIFF (row 1, pixel 0). */
#include <stdio.h>
#include <string.h>
#include "pixman.h"
int main(void){
    /* source 4x2 bits, reflect repeat (general fetcher); CA mask 4x2 whose row 1 has alpha 0, colour ff */
    uint32_t s[8]={0xff102030,0xff405060,0xff708090,0xffa0b0c0, 0xff0f1f2f,0xff3f4f5f,0xff6f7f8f,0xff9fafbf};
    uint32_t m[8]={0xffffffff,0xffffffff,0xffffffff,0xffffffff, 0x00ffffff,0x00ffffff,0x00ffffff,0x00ffffff};
    uint32_t d1[8],d2[8]; int bad=0;
    for(int i=0;i<8;i++) d1[i]=d2[i]=0x20000000;
    pixman_image_t *S=pixman_image_create_bits(PIXMAN_x8r8g8b8,4,2,s,16);
    pixman_image_set_repeat(S,PIXMAN_REPEAT_REFLECT);
    pixman_image_t *M=pixman_image_create_bits(PIXMAN_a8r8g8b8,4,2,m,16);
    pixman_image_set_component_alpha(M,1);
    pixman_image_t *D1=pixman_image_create_bits(PIXMAN_a8r8g8b8,4,2,d1,16);
    pixman_image_t *D2=pixman_image_create_bits(PIXMAN_a8r8g8b8,4,2,d2,16);
    pixman_image_composite32(PIXMAN_OP_SATURATE,S,M,D1,0,0,0,0,0,0,4,2);           /* one call, two rows */
    pixman_image_composite32(PIXMAN_OP_SATURATE,S,M,D2,0,0,0,0,0,0,4,1);           /* row by row */
    pixman_image_composite32(PIXMAN_OP_SATURATE,S,M,D2,0,1,0,1,0,1,4,1);
    for(int i=0;i<8;i++){ printf("row %d pixel %d: one call %08x  row by row %08x %s\n",i/4,i%4,d1[i],d2[i],d1[i]==d2[i]?"":"DIFF"); bad+=d1[i]!=d2[i]; }
    return bad?1:0;
}

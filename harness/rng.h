/* SplitMix64: every random choice of every harness derives from one state seeded by VERIF_SEED */
#ifndef VERIF_RNG_H
#define VERIF_RNG_H
#include <stdint.h>
static uint64_t rng_state;
static inline uint64_t rng_u64(void);
/* the seed is hashed twice so that seeds s and s+1 start at unrelated positions of the sequence */
static inline void rng_seed(uint64_t s){ rng_state = s*0x9E3779B97F4A7C15ULL + 0x1234567; rng_state = rng_u64() ^ (s<<32); rng_state = rng_u64(); }
static inline uint64_t rng_u64(void){ uint64_t z=(rng_state+=0x9E3779B97F4A7C15ULL); z=(z^(z>>30))*0xBF58476D1CE4E5B9ULL; z=(z^(z>>27))*0x94D049BB133111EBULL; return z^(z>>31); }
static inline uint32_t rng_u32(void){ return (uint32_t)(rng_u64()>>32); }
static inline int rng_n(int n){ return n<=0?0:(int)(rng_u64()%(uint64_t)n); }   /* [0,n) */
static inline int rng_range(int lo,int hi){ return lo+rng_n(hi-lo+1); }        /* [lo,hi] */
static inline int rng_chance(int pct){ return rng_n(100)<pct; }
#endif

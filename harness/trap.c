/* Correspondence + spec-oracle harness for the trapezoid domain (C12).
 *   trap gen <seed> <ncases> <mode> <ops_out> <impl_out> <oracle_out>
 *        mode 0: shapes whose edges stay inside the exact (no int32 wrap) region
 *        mode 1: additionally endpoints up to +-32767 px and full-range int32 coordinates
 *        mode 2: composite entry points (pixman_composite_trapezoids / _triangles), x_dst = y_dst = 0 and
 *                line endpoints at top/bottom (the case in which the library's bounding box is right)
 *        mode 3: composite entry points, any offsets and any trapezoid
 *   trap exec <ops_in> <impl_out>
 * Request lines are documented in lean/Driver/Trap.lean; the additional requests
 *   comptz / comptri <op> <dstfmt> <w> <h> <maskdepth> <srckind> <srcarg> <xs> <ys> <xd> <yd> <fill> <cnt> <ints…>
 * have no model: the reply is "same" when pixman_composite_trapezoids gives exactly the destination
 * obtained by rasterising into a mask that covers the whole destination and compositing that mask,
 * "diff …" otherwise. */
#ifdef HAVE_CONFIG_H
#include <config.h>
#endif
#include <stdio.h>
#include <stdlib.h>
#include <string.h>
#include <stdarg.h>
#include "pixman-private.h"
#include "rng.h"

#define GUARD_ROWS 24
#define MAXV 4096

typedef long long ll;

/* ------------------------------------------------------------------ alpha targets */
typedef struct {
    int n, w, h, stride_w;          /* stride in uint32 words */
    uint32_t *alloc, *bits;
    size_t total_w;
    pixman_image_t *img;
} tgt_t;

static pixman_format_code_t fmt_of_depth (int n) { return n == 1 ? PIXMAN_a1 : n == 4 ? PIXMAN_a4 : PIXMAN_a8; }

static unsigned get_px (const tgt_t *t, int x, int y)
{
    const uint8_t *row = (const uint8_t *) (t->bits + (size_t) y * t->stride_w);
    if (t->n == 8) return row[x];
    if (t->n == 4) return (row[x >> 1] >> ((x & 1) * 4)) & 0xf;     /* little endian */
    return (t->bits[(size_t) y * t->stride_w + (x >> 5)] >> (x & 31)) & 1;
}
static void set_px (tgt_t *t, int x, int y, unsigned v)
{
    uint8_t *row = (uint8_t *) (t->bits + (size_t) y * t->stride_w);
    if (t->n == 8) row[x] = v;
    else if (t->n == 4) row[x >> 1] = (row[x >> 1] & ~(0xf << ((x & 1) * 4))) | ((v & 0xf) << ((x & 1) * 4));
    else { uint32_t *p = &t->bits[(size_t) y * t->stride_w + (x >> 5)]; *p = (*p & ~(1u << (x & 31))) | ((v & 1u) << (x & 31)); }
}
#define PADPAT 0xA5u
static int tgt_init (tgt_t *t, int n, int w, int h, unsigned v)
{
    t->n = n; t->w = w; t->h = h;
    t->stride_w = (w * n + 31) / 32 + (w % 3 == 0 ? 1 : 0);       /* sometimes a stride wider than needed */
    t->total_w = (size_t) (h + 2 * GUARD_ROWS) * t->stride_w;
    t->alloc = malloc (t->total_w * 4);
    if (!t->alloc) return 0;
    memset (t->alloc, PADPAT, t->total_w * 4);
    t->bits = t->alloc + (size_t) GUARD_ROWS * t->stride_w;
    for (int y = 0; y < h; y++) for (int x = 0; x < w; x++) set_px (t, x, y, v);
    t->img = pixman_image_create_bits (fmt_of_depth (n), w, h, t->bits, t->stride_w * 4);
    return t->img != NULL;
}
/* bytes outside the w*n bits of every row and the guard rows must still hold the pattern */
static int tgt_outside_intact (const tgt_t *t)
{
    const uint8_t *a = (const uint8_t *) t->alloc;
    size_t gb = (size_t) GUARD_ROWS * t->stride_w * 4, rb = (size_t) t->stride_w * 4;
    for (size_t i = 0; i < gb; i++) if (a[i] != PADPAT) return 0;
    const uint8_t *e = a + gb + (size_t) t->h * rb;
    for (size_t i = 0; i < gb; i++) if (e[i] != PADPAT) return 0;
    for (int y = 0; y < t->h; y++) {
        const uint8_t *row = a + gb + (size_t) y * rb;
        size_t bit = (size_t) t->w * t->n;
        for (size_t b = bit; b < rb * 8; b++) {
            unsigned got = (row[b >> 3] >> (b & 7)) & 1, want = (PADPAT >> (b & 7)) & 1;
            if (got != want) return 0;
        }
    }
    return 1;
}
static void tgt_fini (tgt_t *t) { if (t->img) pixman_image_unref (t->img); free (t->alloc); t->img = NULL; t->alloc = NULL; }

static size_t fmt_img (const tgt_t *t, char *out, size_t cap)
{
    static const char hx[] = "0123456789abcdef";
    size_t o = 0;
    for (int y = 0; y < t->h; y++) {
        if (y && o + 1 < cap) out[o++] = ',';
        for (int x = 0; x < t->w; x++) {
            unsigned v = get_px (t, x, y);
            if (t->n == 8) { if (o + 2 < cap) { out[o++] = hx[v >> 4]; out[o++] = hx[v & 15]; } }
            else if (o + 1 < cap) out[o++] = hx[v & 15];
        }
    }
    if (!tgt_outside_intact (t) && o + 8 < cap) { memcpy (out + o, " OUTSIDE", 8); o += 8; }
    out[o] = 0;
    return o;
}

/* ------------------------------------------------------------------ request execution */
static int32_t w32 (ll v) { return (int32_t) (uint32_t) (unsigned long long) v; }

/* Input on which the library crashes (recorded finding): an edge with wrapped dy == -1 and
 * dx == INT32_MIN divides INT_MIN by -1 in pixman_edge_init.  The harness refuses it (reply CRASHGUARD)
 * unless TRAP_NOGUARD is set; checks/C12.py replays it in a child process.  (The former guard for
 * bottoms within a pixel of INT32_MIN is gone: pixman_sample_floor_y saturates since a0ed323, and
 * those inputs are now ordinary requests and regression lines of corpus/trap.) */
static int g_noguard;
static int crash_guard_y (ll bottom, ll yoff) { (void) bottom; (void) yoff; return 0; }
static int crash_guard_dxdy (ll xt, ll yt, ll xb, ll yb)
{
    int32_t dy = w32 (yb - yt), dx = w32 (xb - xt);
    return !g_noguard && dy == -1 && dx == INT32_MIN;
}
static int crash_guard_line (ll x1, ll y1, ll x2, ll y2)
{
    if (y1 > y2) return crash_guard_dxdy (x2, y2, x1, y1);
    return crash_guard_dxdy (x1, y1, x2, y2);
}

static void tz_from (pixman_trapezoid_t *t, const ll *a)
{
    t->top = w32 (a[0]); t->bottom = w32 (a[1]);
    t->left.p1.x = w32 (a[2]); t->left.p1.y = w32 (a[3]); t->left.p2.x = w32 (a[4]); t->left.p2.y = w32 (a[5]);
    t->right.p1.x = w32 (a[6]); t->right.p1.y = w32 (a[7]); t->right.p2.x = w32 (a[8]); t->right.p2.y = w32 (a[9]);
}
static int tz_guard (const ll *a, ll yoff)
{
    pixman_trapezoid_t t; tz_from (&t, a);
    if (!pixman_trapezoid_valid (&t)) return 0;
    return crash_guard_y (a[1], yoff) || crash_guard_line (a[2], a[3], a[4], a[5]) || crash_guard_line (a[6], a[7], a[8], a[9]);
}

static int composite_request (int tri, const ll *v, int nv, char *out, size_t cap);

/* executes one request line, writes the reply (without newline) into out */
static void exec_line (const char *line, char *out, size_t cap)
{
    static char buf[1 << 16];
    static ll v[MAXV];
    char op[32];
    int nv = 0;
    strncpy (buf, line, sizeof buf - 1); buf[sizeof buf - 1] = 0;
    char *s = strtok (buf, " \t\r\n");
    if (!s) { snprintf (out, cap, "bad-request"); return; }
    snprintf (op, sizeof op, "%s", s);
    while ((s = strtok (NULL, " \t\r\n")) && nv < MAXV) v[nv++] = strtoll (s, NULL, 10);

    if (!strcmp (op, "ceil") && nv == 2) { snprintf (out, cap, "%d", (int) pixman_sample_ceil_y (w32 (v[0]), (int) v[1])); return; }
    if (!strcmp (op, "floor") && nv == 2) { snprintf (out, cap, "%d", (int) pixman_sample_floor_y (w32 (v[0]), (int) v[1])); return; }
    if (!strcmp (op, "edge") && nv >= 7 && nv == 7 + v[6]) {
        pixman_edge_t e; memset (&e, 0, sizeof e);
        int32_t dy = w32 (v[5] - v[3]), dx = w32 (v[4] - v[2]);
        if (dy == -1 && dx == INT32_MIN) { snprintf (out, cap, "CRASHGUARD"); return; }
        pixman_edge_init (&e, (int) v[0], w32 (v[1]), w32 (v[2]), w32 (v[3]), w32 (v[4]), w32 (v[5]));
        for (int i = 0; i < v[6]; i++) pixman_edge_step (&e, (int) v[7 + i]);
        snprintf (out, cap, "%d %d %d %d %d %d %d %d %d %d", e.x, e.e, e.stepx, e.signdx, e.dy, e.dx,
                  e.stepx_small, e.stepx_big, e.dx_small, e.dx_big);
        return;
    }
    int israst = !strcmp (op, "rast"), isaddtz = !strcmp (op, "addtz"), isaddtraps = !strcmp (op, "addtraps"), isaddtri = !strcmp (op, "addtri");
    if (israst || isaddtz || isaddtraps || isaddtri) {
        if (nv < 6) { snprintf (out, cap, "bad-request"); return; }
        int n = (int) v[0], w = (int) v[1], h = (int) v[2]; unsigned fill = (unsigned) v[3];
        ll xoff = v[4], yoff = v[5];
        if (!(n == 1 || n == 4 || n == 8) || w < 1 || h < 1 || w > 32767 || h > 32767 || (ll) w * h > 3000000) { snprintf (out, cap, "bad-request"); return; }
        int cnt = 1, per = 10, base = 6;
        if (!israst) { if (nv < 7) { snprintf (out, cap, "bad-request"); return; } cnt = (int) v[6]; base = 7; per = isaddtz ? 10 : 6; }
        if (cnt < 0 || nv != base + cnt * per) { snprintf (out, cap, "bad-request"); return; }
        /* crash guards */
        for (int i = 0; i < cnt; i++) {
            const ll *a = v + base + i * per;
            int g = 0;
            if (israst || isaddtz) g = tz_guard (a, yoff);
            else if (isaddtraps) g = crash_guard_y (a[5], (ll) (int16_t) yoff) || crash_guard_dxdy (a[0], a[2], a[3], a[5]) || crash_guard_dxdy (a[1], a[2], a[4], a[5]);
            else {
                pixman_triangle_t tr = { { w32 (a[0]), w32 (a[1]) }, { w32 (a[2]), w32 (a[3]) }, { w32 (a[4]), w32 (a[5]) } };
                ll m = a[1]; if (a[3] < m) m = a[3]; if (a[5] < m) m = a[5];
                ll M = a[1]; if (a[3] > M) M = a[3]; if (a[5] > M) M = a[5];
                (void) tr;
                g = crash_guard_y (m, yoff) || crash_guard_y (M, yoff) || crash_guard_y (a[1], yoff) || crash_guard_y (a[3], yoff) || crash_guard_y (a[5], yoff)
                    || (!g_noguard && M - m >= 0xffffffffLL);
            }
            if (g) { snprintf (out, cap, "CRASHGUARD"); return; }
        }
        tgt_t t;
        if (!tgt_init (&t, n, w, h, fill)) { snprintf (out, cap, "alloc-failed"); return; }
        if (israst) {
            pixman_trapezoid_t tz; tz_from (&tz, v + base);
            pixman_rasterize_trapezoid (t.img, &tz, (int) xoff, (int) yoff);
        } else if (isaddtz) {
            pixman_trapezoid_t *tz = calloc (cnt ? cnt : 1, sizeof *tz);
            for (int i = 0; i < cnt; i++) tz_from (&tz[i], v + base + i * 10);
            pixman_add_trapezoids (t.img, (int16_t) xoff, (int) yoff, cnt, tz);
            free (tz);
        } else if (isaddtraps) {
            pixman_trap_t *tp = calloc (cnt ? cnt : 1, sizeof *tp);
            for (int i = 0; i < cnt; i++) {
                const ll *a = v + base + i * 6;
                tp[i].top.l = w32 (a[0]); tp[i].top.r = w32 (a[1]); tp[i].top.y = w32 (a[2]);
                tp[i].bot.l = w32 (a[3]); tp[i].bot.r = w32 (a[4]); tp[i].bot.y = w32 (a[5]);
            }
            pixman_add_traps (t.img, (int16_t) xoff, (int16_t) yoff, cnt, tp);
            free (tp);
        } else {
            pixman_triangle_t *tr = calloc (cnt ? cnt : 1, sizeof *tr);
            for (int i = 0; i < cnt; i++) {
                const ll *a = v + base + i * 6;
                tr[i].p1.x = w32 (a[0]); tr[i].p1.y = w32 (a[1]); tr[i].p2.x = w32 (a[2]); tr[i].p2.y = w32 (a[3]);
                tr[i].p3.x = w32 (a[4]); tr[i].p3.y = w32 (a[5]);
            }
            pixman_add_triangles (t.img, (int32_t) xoff, (int32_t) yoff, cnt, tr);
            free (tr);
        }
        fmt_img (&t, out, cap);
        tgt_fini (&t);
        return;
    }
    if ((!strcmp (op, "comptz") || !strcmp (op, "comptri"))) {
        if (!composite_request (!strcmp (op, "comptri"), v, nv, out, cap)) snprintf (out, cap, "bad-request");
        return;
    }
    snprintf (out, cap, "bad-request");
}

/* ------------------------------------------------------------------ composite entry points */
static const pixman_format_code_t dst_formats[] = { PIXMAN_a8r8g8b8, PIXMAN_x8r8g8b8, PIXMAN_r5g6b5, PIXMAN_a8, PIXMAN_a4, PIXMAN_a1 };
#define N_DST_FORMATS ((int) (sizeof dst_formats / sizeof dst_formats[0]))

static uint64_t mix64 (uint64_t z) { z += 0x9E3779B97F4A7C15ULL; z = (z ^ (z >> 30)) * 0xBF58476D1CE4E5B9ULL; z = (z ^ (z >> 27)) * 0x94D049BB133111EBULL; return z ^ (z >> 31); }

static pixman_image_t *make_filled (pixman_format_code_t f, int w, int h, uint64_t seed, uint32_t **bits_out, int *stride_out)
{
    int bpp = PIXMAN_FORMAT_BPP (f);
    int stride = ((w * bpp + 31) / 32) * 4;
    uint32_t *bits = calloc ((size_t) stride * h + 4, 1);
    uint8_t *p = (uint8_t *) bits;
    for (size_t i = 0; i < (size_t) stride * h; i++) { seed = mix64 (seed); p[i] = (uint8_t) (seed >> 24); }
    *bits_out = bits; *stride_out = stride;
    return pixman_image_create_bits (f, w, h, bits, stride);
}

/* v: op dstfmt w h maskdepth srckind srcarg xs ys xd yd fill cnt ints… */
static int composite_request (int tri, const ll *v, int nv, char *out, size_t cap)
{
    if (nv < 13) return 0;
    int op = (int) v[0], fi = (int) v[1], w = (int) v[2], h = (int) v[3], md = (int) v[4], sk = (int) v[5];
    ll sarg = v[6]; int xs = (int) v[7], ys = (int) v[8], xd = (int) v[9], yd = (int) v[10];
    uint64_t fill = (uint64_t) v[11]; int cnt = (int) v[12];
    int per = tri ? 6 : 10;
    if (fi < 0 || fi >= N_DST_FORMATS || w < 1 || h < 1 || w > 512 || h > 512 || !(md == 1 || md == 4 || md == 8) || cnt < 0 || nv != 13 + cnt * per) return 0;
    pixman_format_code_t df = dst_formats[fi], mf = fmt_of_depth (md);
    /* trapezoid list (triangles are decomposed by the library itself in the entry point under
       test; the reference uses pixman_add_triangles / pixman_add_trapezoids into the mask) */
    pixman_trapezoid_t *tz = NULL; pixman_triangle_t *tr = NULL;
    if (!tri) {
        tz = calloc (cnt ? cnt : 1, sizeof *tz);
        for (int i = 0; i < cnt; i++) {
            if (tz_guard (v + 13 + i * 10, 0) || tz_guard (v + 13 + i * 10, yd)) { free (tz); snprintf (out, cap, "CRASHGUARD"); return 1; }
            tz_from (&tz[i], v + 13 + i * 10);
        }
    } else {
        tr = calloc (cnt ? cnt : 1, sizeof *tr);
        for (int i = 0; i < cnt; i++) {
            const ll *a = v + 13 + i * 6;
            for (int k = 0; k < 6; k++) if (a[k] < -(1LL << 30) || a[k] > (1LL << 30)) { free (tr); snprintf (out, cap, "CRASHGUARD"); return 1; }
            tr[i].p1.x = w32 (a[0]); tr[i].p1.y = w32 (a[1]); tr[i].p2.x = w32 (a[2]); tr[i].p2.y = w32 (a[3]);
            tr[i].p3.x = w32 (a[4]); tr[i].p3.y = w32 (a[5]);
        }
    }
    uint32_t *b1, *b2, *sb = NULL; int st1, st2, sst = 0;
    pixman_image_t *d1 = make_filled (df, w, h, fill, &b1, &st1);
    pixman_image_t *d2 = make_filled (df, w, h, fill, &b2, &st2);
    pixman_image_t *src;
    if (sk == 0) {          /* solid colour, srcarg = a8r8g8b8 (premultiplied by the caller) */
        pixman_color_t c; uint32_t p = (uint32_t) sarg;
        c.alpha = (p >> 24) * 0x101; c.red = ((p >> 16) & 0xff) * 0x101; c.green = ((p >> 8) & 0xff) * 0x101; c.blue = (p & 0xff) * 0x101;
        src = pixman_image_create_solid_fill (&c);
    } else {                /* 7x5 a8r8g8b8 (sk 1) or x8r8g8b8 (sk 2, 3: opaque) bitmap, repeat NORMAL; sk 3 with an effective source clip */
        src = make_filled (sk == 1 ? PIXMAN_a8r8g8b8 : PIXMAN_x8r8g8b8, 7, 5, (uint64_t) sarg, &sb, &sst);
        if (sk == 1) { /* premultiply */
            for (int i = 0; i < 35; i++) { uint32_t p = ((uint32_t *) sb)[i]; uint32_t a = p >> 24;
                uint32_t r = ((p >> 16) & 0xff) * a / 255, g = ((p >> 8) & 0xff) * a / 255, b = (p & 0xff) * a / 255;
                ((uint32_t *) sb)[i] = (a << 24) | (r << 16) | (g << 8) | b; }
        }
        pixman_image_set_repeat (src, PIXMAN_REPEAT_NORMAL);
        if (sk == 3) {      /* opaque bitmap whose clip region is enabled for use as a source (client clip + source clipping):
                               both routes must confine the drawing to the translated clip */
            pixman_region32_t r; pixman_region32_init_rect (&r, 1, 1, (unsigned) (w * 2 / 3 + 1), (unsigned) (h * 2 / 3 + 1));
            pixman_region32_union_rect (&r, &r, w * 2 / 3 + 3, 0, 2, (unsigned) (h / 2 + 1));
            pixman_image_set_clip_region32 (src, &r); pixman_region32_fini (&r);
            pixman_image_set_source_clipping (src, 1); pixman_image_set_has_client_clip (src, 1);
        }
    }
    /* the entry point under test */
    if (!tri) pixman_composite_trapezoids ((pixman_op_t) op, src, d1, mf, xs, ys, xd, yd, cnt, tz);
    else pixman_composite_triangles ((pixman_op_t) op, src, d1, mf, xs, ys, xd, yd, cnt, tr);
    /* the reference: a mask covering the whole destination */
    pixman_image_t *mask = pixman_image_create_bits (mf, w, h, NULL, -1);
    if (!tri) pixman_add_trapezoids (mask, (int16_t) xd, yd, cnt, tz);
    else pixman_add_triangles (mask, xd, yd, cnt, tr);
    if (cnt > 0)
        pixman_image_composite32 ((pixman_op_t) op, src, mask, d2, xs - xd, ys - yd, 0, 0, 0, 0, w, h);
    /* compare */
    int bpp = PIXMAN_FORMAT_BPP (df);
    long ndiff = 0; int fx = -1, fy = -1, minx = w, maxx = -1, miny = h, maxy = -1;
    for (int y = 0; y < h; y++) for (int x = 0; x < w; x++) {
        uint32_t p1, p2;
        const uint8_t *r1 = (const uint8_t *) b1 + (size_t) y * st1, *r2 = (const uint8_t *) b2 + (size_t) y * st2;
        switch (bpp) {
        case 32: p1 = ((const uint32_t *) r1)[x]; p2 = ((const uint32_t *) r2)[x]; if (df == PIXMAN_x8r8g8b8) { p1 &= 0xffffff; p2 &= 0xffffff; } break;
        case 16: p1 = ((const uint16_t *) r1)[x]; p2 = ((const uint16_t *) r2)[x]; break;
        case 8: p1 = r1[x]; p2 = r2[x]; break;
        case 4: p1 = (r1[x >> 1] >> ((x & 1) * 4)) & 15; p2 = (r2[x >> 1] >> ((x & 1) * 4)) & 15; break;
        default: p1 = (((const uint32_t *) r1)[x >> 5] >> (x & 31)) & 1; p2 = (((const uint32_t *) r2)[x >> 5] >> (x & 31)) & 1; break;
        }
        if (p1 != p2) { if (!ndiff) { fx = x; fy = y; } ndiff++; if (x < minx) minx = x; if (x > maxx) maxx = x; if (y < miny) miny = y; if (y > maxy) maxy = y; }
    }
    if (!ndiff) snprintf (out, cap, "same");
    else snprintf (out, cap, "diff n=%ld first=(%d,%d) bbox=(%d,%d,%d,%d)", ndiff, fx, fy, minx, miny, maxx + 1, maxy + 1);
    pixman_image_unref (mask); pixman_image_unref (src); pixman_image_unref (d1); pixman_image_unref (d2);
    free (b1); free (b2); free (sb); free (tz); free (tr);
    return 1;
}

/* ------------------------------------------------------------------ generators */
static FILE *g_ops, *g_impl, *g_orc;
static long g_line;
static char g_out[1 << 23];

static void emit (const char *line)
{
    g_line++;
    fprintf (g_ops, "%s\n", line); fflush (g_ops);
    exec_line (line, g_out, sizeof g_out);
    fprintf (g_impl, "%s\n", g_out);
}

static char lb[1 << 16]; static size_t lbn;
static void lb_reset (void) { lbn = 0; lb[0] = 0; }
static void lb_add (const char *fmt, ...) { va_list ap; va_start (ap, fmt); lbn += vsnprintf (lb + lbn, sizeof lb - lbn, fmt, ap); va_end (ap); }

static int pick_depth (void) { int r = rng_n (10); return r < 2 ? 1 : r < 5 ? 4 : 8; }

/* sample grid of depth n */
static int NY (int n) { return N_Y_FRAC (n); }
static int NX (int n) { return N_X_FRAC (n); }
static int32_t row_pos (int n, int r, int k) { return r * 65536 + Y_FRAC_FIRST (n) + k * STEP_Y_SMALL (n); }
static int32_t col_thr (int n, int c, int j) { return c * 65536 + X_FRAC_FIRST (n) + j * STEP_X_SMALL (n) - (n == 1 ? 0 : 2); }

/* a sub-pixel fraction biased to the interesting values */
static int32_t frac_any (int n)
{
    switch (rng_n (9)) {
    case 0: return 0;
    case 1: return 32768;
    case 2: return rng_n (4) * 16384;
    case 3: return Y_FRAC_FIRST (n) + rng_n (NY (n)) * STEP_Y_SMALL (n) + rng_range (-1, 1);
    case 4: return X_FRAC_FIRST (n) + rng_n (NX (n)) * STEP_X_SMALL (n) - (n == 1 ? 0 : 2) + rng_range (-2, 2);
    case 5: return rng_n (256) * 256;
    case 6: return 65535 - rng_n (3);
    case 7: return rng_n (3);
    default: return rng_n (65536);
    }
}
static ll coord_near (int n, int size) { return (ll) rng_range (-3, size + 3) * 65536 + frac_any (n); }

static ll clamp_i32 (ll v) { if (v > 2147483647LL) return 2147483647LL; if (v < -2147483647LL - 1) return -2147483647LL - 1; return v; }

typedef struct { ll a[10]; } tzv_t;     /* top bottom l.p1 l.p2 r.p1 r.p2 */

/* line through the point (px,py) with direction (dxu,dyu), endpoints k1 units above and k2 below */
static void line_through (ll px, ll py, ll dxu, ll dyu, ll k1, ll k2, ll *o)
{
    /* shrink the multipliers until both endpoints are representable */
    for (;;) {
        ll x1 = px - k1 * dxu, y1 = py - k1 * dyu, x2 = px + k2 * dxu, y2 = py + k2 * dyu;
        if (x1 == clamp_i32 (x1) && y1 == clamp_i32 (y1) && x2 == clamp_i32 (x2) && y2 == clamp_i32 (y2) && (k1 + k2) > 0) {
            if (rng_chance (50)) { o[0] = x1; o[1] = y1; o[2] = x2; o[3] = y2; } else { o[0] = x2; o[1] = y2; o[2] = x1; o[3] = y1; }
            return;
        }
        if (k1 + k2 <= 1) { o[0] = px; o[1] = py; o[2] = px + dxu; o[3] = py + (dyu ? dyu : 1); return; }
        k1 /= 2; k2 = k2 / 2 + (k1 + k2 / 2 == 0);
    }
}

/* keeps the extrapolated abscissae inside +-30000 px over the rows of the image (exact region) */
static int line_exact_ok (const ll *l, int h, ll yoff_fixed, ll xoff_fixed)
{
    ll xt = l[0], yt = l[1], xb = l[2], yb = l[3];
    if (yt > yb) { ll t; t = xt; xt = xb; xb = t; t = yt; yt = yb; yb = t; }
    if (yt == yb) return 1;
    ll dy = yb - yt, dx = xb - xt;
    if (dy > 2147483647LL || dx > 2147483000LL || dx < -2147483000LL) return 0;
    ll lim = 30000LL * 65536;
    for (int i = 0; i < 2; i++) {
        ll y = (i ? (ll) h * 65536 : 0) - yoff_fixed;
        if (y - yt > 2147483647LL || y - yt < -2147483647LL) return 0;
        __int128 num = (__int128) (y - yt) * dx;
        __int128 x = (__int128) xt + num / dy + xoff_fixed;
        if (x > lim || x < -lim) return 0;
    }
    if (xt + xoff_fixed > lim || xt + xoff_fixed < -lim || xb + xoff_fixed > lim || xb + xoff_fixed < -lim) return 0;
    if (yt + yoff_fixed > lim || yt + yoff_fixed < -lim || yb + yoff_fixed > lim || yb + yoff_fixed < -lim) return 0;
    return 1;
}

enum { K_PIXELISH, K_THROUGH, K_SUBPIXEL, K_FAR, K_FLAT, K_DEGEN, K_TIE, K_ALIGNED, K_EXTREME, K_NKINDS };

static void gen_trapezoid (int n, int w, int h, int kind, tzv_t *t)
{
    ll *a = t->a;
    switch (kind) {
    default:
    case K_PIXELISH: {
        a[0] = coord_near (n, h); a[1] = a[0] + (rng_chance (70) ? rng_range (1, h + 2) * 65536LL + frac_any (n) : rng_range (1, 70000));
        for (int e = 0; e < 2; e++) {
            ll *l = a + 2 + 4 * e;
            l[0] = coord_near (n, w); l[2] = coord_near (n, w);
            if (rng_chance (60)) { l[1] = a[0] - (rng_chance (50) ? 0 : rng_n (3 * 65536)); l[3] = a[1] + (rng_chance (50) ? 0 : rng_n (3 * 65536)); }
            else { l[1] = coord_near (n, h); l[3] = coord_near (n, h); }
            if (rng_chance (30)) { ll s; s = l[0]; l[0] = l[2]; l[2] = s; s = l[1]; l[1] = l[3]; l[3] = s; }
        }
        break; }
    case K_THROUGH: {
        /* both edges pass exactly through (threshold + small, grid row) */
        int r = rng_range (0, h - 1), k = rng_n (NY (n));
        ll sy = row_pos (n, r, k);
        a[0] = sy - (rng_chance (30) ? 0 : rng_n (2 * 65536)); a[1] = sy + 1 + rng_n (3 * 65536);
        for (int e = 0; e < 2; e++) {
            ll *l = a + 2 + 4 * e;
            ll q = col_thr (n, rng_range (0, w - 1), rng_n (NX (n))) + rng_range (-1, 2);
            ll dyu = rng_chance (50) ? rng_range (1, 40) : (rng_chance (50) ? STEP_Y_SMALL (n) * rng_range (1, 3) : rng_range (1, 70000));
            ll dxu = rng_chance (20) ? 0 : rng_chance (50) ? rng_range (-40, 40) : rng_range (-70000, 70000);
            line_through (q, sy, dxu, dyu, rng_n (3000), 1 + rng_n (3000), l);
        }
        break; }
    case K_SUBPIXEL: {
        ll ox = (ll) rng_range (0, w - 1) * 65536, oy = (ll) rng_range (0, h - 1) * 65536;
        ll span = rng_chance (50) ? 65536 : 2 * STEP_Y_SMALL (n) + 2;
        a[0] = oy + rng_n ((int) span); a[1] = a[0] + 1 + rng_n ((int) span);
        for (int e = 0; e < 2; e++) {
            ll *l = a + 2 + 4 * e;
            l[0] = ox + rng_n ((int) span) + (e ? rng_n ((int) span) : 0); l[2] = ox + rng_n ((int) span) + (e ? rng_n ((int) span) : 0);
            l[1] = a[0] - rng_n (3); l[3] = a[1] + rng_n (3);
            if (rng_chance (30)) { ll s; s = l[0]; l[0] = l[2]; l[2] = s; s = l[1]; l[1] = l[3]; l[3] = s; }
        }
        break; }
    case K_FAR: {
        /* endpoints far outside the image; the lines pass through the neighbourhood of the image */
        a[0] = rng_chance (50) ? coord_near (n, h) : -(ll) rng_range (0, 20000) * 65536 - frac_any (n);
        a[1] = rng_chance (50) ? a[0] + 1 + coord_near (n, h) + 3 * 65536 : (ll) rng_range (1, 20000) * 65536 + frac_any (n);
        if (a[1] <= a[0]) a[1] = a[0] + 65536;
        for (int e = 0; e < 2; e++) {
            ll *l = a + 2 + 4 * e;
            ll px = coord_near (n, w), py = coord_near (n, h);
            ll dyu = rng_range (1, 65536), dxu = rng_chance (15) ? 0 : rng_range (-65536, 65536);
            if (rng_chance (30)) dxu *= rng_range (1, 30);
            line_through (px, py, dxu, dyu, rng_n (30000), 1 + rng_n (30000), l);
        }
        break; }
    case K_FLAT: {
        /* nearly horizontal edges: tiny dy, large dx */
        a[0] = coord_near (n, h); a[1] = a[0] + (rng_chance (50) ? 1 + rng_n (3 * STEP_Y_SMALL (n)) : 1 + rng_n (3 * 65536));
        for (int e = 0; e < 2; e++) {
            ll *l = a + 2 + 4 * e;
            ll dy = rng_chance (40) ? rng_range (1, 4) : rng_chance (50) ? STEP_Y_SMALL (n) + rng_range (-1, 1) : rng_range (1, 70000);
            ll y0 = rng_chance (50) ? a[0] : a[0] + rng_range (-70000, 70000);
            l[1] = y0; l[3] = y0 + dy;
            l[0] = coord_near (n, w); l[2] = l[0] + (rng_chance (50) ? rng_range (-40, 40) * 65536LL : rng_range (-3000000, 3000000)) + frac_any (n);
            if (rng_chance (30)) { ll s; s = l[0]; l[0] = l[2]; l[2] = s; s = l[1]; l[1] = l[3]; l[3] = s; }
        }
        break; }
    case K_DEGEN: {
        gen_trapezoid (n, w, h, rng_n (5), t);
        switch (rng_n (7)) {
        case 0: a[1] = a[0]; break;
        case 1: a[1] = a[0] - rng_n (70000); break;
        case 2: a[5] = a[3]; break;                      /* horizontal left line: invalid */
        case 3: a[9] = a[7]; break;
        case 4: for (int i = 0; i < 4; i++) a[6 + i] = a[2 + i]; break;   /* right == left */
        case 5: for (int i = 0; i < 4; i++) { ll s = a[6 + i]; a[6 + i] = a[2 + i]; a[2 + i] = s; } break;   /* swapped */
        default: a[1] = a[0] + 1; break;
        }
        break; }
    case K_TIE: {
        /* edges that hit lattice points exactly on sample rows: heights that are multiples of the
           sample steps, tops on grid rows, slopes that are simple fractions */
        int r = rng_range (0, h - 1), k = rng_n (NY (n));
        ll sy = row_pos (n, r, k);
        a[0] = rng_chance (70) ? sy : sy - rng_n (65536);
        ll steps[6] = { STEP_Y_SMALL (n), STEP_Y_BIG (n), 65536, 32768, STEP_Y_SMALL (n) * 2, 1 };
        a[1] = a[0] + steps[rng_n (6)] * rng_range (1, 6) + (rng_chance (30) ? rng_range (0, 2) : 1);
        for (int e = 0; e < 2; e++) {
            ll *l = a + 2 + 4 * e;
            ll dy = steps[rng_n (5)] * rng_range (1, 4);
            ll dx = rng_chance (50) ? rng_range (-6, 6) * (dy / (1 << rng_n (5))) : rng_range (-8, 8) * rng_range (1, 4);
            if (rng_chance (30)) dx = rng_range (-3, 3);
            ll q = col_thr (n, rng_range (0, w - 1), rng_n (NX (n))) + rng_range (-1, 1);
            ll y0 = rng_chance (70) ? a[0] : a[0] - dy * rng_range (0, 2);
            l[0] = q; l[1] = y0; l[2] = q + dx; l[3] = y0 + dy;
            if (rng_chance (30)) { ll s; s = l[0]; l[0] = l[2]; l[2] = s; s = l[1]; l[1] = l[3]; l[3] = s; }
        }
        break; }
    case K_ALIGNED: {
        /* the usual client shape: line endpoints at top and bottom, left <= right */
        a[0] = coord_near (n, h); a[1] = a[0] + 1 + (rng_chance (60) ? rng_range (0, h + 2) * 65536LL + frac_any (n) : rng_n (70000));
        ll xl0 = coord_near (n, w), xl1 = coord_near (n, w);
        ll xr0 = xl0 + (rng_chance (70) ? rng_range (0, w + 2) * 65536LL + frac_any (n) : rng_n (70000));
        ll xr1 = xl1 + (rng_chance (70) ? rng_range (0, w + 2) * 65536LL + frac_any (n) : rng_n (70000));
        a[2] = xl0; a[3] = a[0]; a[4] = xl1; a[5] = a[1]; a[6] = xr0; a[7] = a[0]; a[8] = xr1; a[9] = a[1];
        break; }
    case K_EXTREME: {
        for (int i = 0; i < 10; i++) {
            switch (rng_n (6)) {
            case 0: a[i] = (ll) (int32_t) rng_u32 (); break;
            case 1: a[i] = 2147483647LL - rng_n (200000); break;
            case 2: a[i] = -2147483647LL - 1 + 65537 + rng_n (200000); break;
            case 3: a[i] = (ll) rng_range (-32767, 32767) * 65536 + frac_any (n); break;
            default: a[i] = coord_near (n, i & 1 ? h : w); break;
            }
        }
        if (rng_chance (70) && a[1] <= a[0]) { ll s = a[0]; a[0] = a[1]; a[1] = s + 1; }
        break; }
    }
    for (int i = 0; i < 10; i++) a[i] = clamp_i32 (a[i]);
}

static void add_tz (const tzv_t *t) { for (int i = 0; i < 10; i++) lb_add (" %lld", t->a[i]); }

static int pick_kind (int mode)
{
    static const int wts0[K_NKINDS] = { 18, 18, 10, 10, 10, 6, 16, 12, 0 };
    static const int wts1[K_NKINDS] = { 8, 8, 4, 30, 8, 4, 6, 4, 28 };
    const int *w = mode ? wts1 : wts0;
    int tot = 0; for (int i = 0; i < K_NKINDS; i++) tot += w[i];
    int r = rng_n (tot);
    for (int i = 0; i < K_NKINDS; i++) { if (r < w[i]) return i; r -= w[i]; }
    return 0;
}

static int pick_size (void) { int r = rng_n (10); return r < 4 ? rng_range (1, 6) : r < 8 ? rng_range (7, 20) : rng_range (21, 40); }
static int pick_off (void) { int r = rng_n (10); return r < 4 ? 0 : r < 8 ? rng_range (-6, 6) : rng_range (-45, 45); }
static unsigned pick_fill (int n) { int m = MAX_ALPHA (n); int r = rng_n (10); return r < 6 ? 0 : r < 8 ? (unsigned) rng_range (0, m) : (unsigned) (m - rng_n (2)); }

/* makes t exact w.r.t. an image of height h and the offsets; in mode 0 only such shapes are used */
static int tz_exact_ok (const tzv_t *t, int h, int xoff, int yoff)
{
    ll yo = (ll) yoff * 65536, xo = (ll) xoff * 65536;
    ll lim = 30000LL * 65536;
    if (t->a[0] + yo > lim || t->a[0] + yo < -lim || t->a[1] + yo > lim || t->a[1] + yo < -lim) return 0;
    return line_exact_ok (t->a + 2, h, yo, xo) && line_exact_ok (t->a + 6, h, yo, xo);
}

static int images_equal (const char *a, const char *b) { return strcmp (a, b) == 0; }

static void gen_raster_case (int mode)
{
    int n = pick_depth ();
    int w = pick_size (), h = pick_size ();
    if (n == 1 && rng_chance (25)) w = rng_range (30, 140);     /* a1 spans over several 32-bit words */
    int xoff = pick_off (), yoff = pick_off ();
    unsigned fill = pick_fill (n);
    tzv_t t[8];
    int which = rng_n (100);
    int tries;

    if (which < 30) {
        /* single trapezoid through pixman_rasterize_trapezoid, then the additivity oracle */
        for (tries = 0; tries < 50; tries++) { gen_trapezoid (n, w, h, pick_kind (mode), &t[0]); if (mode || tz_exact_ok (&t[0], h, xoff, yoff)) break; }
        if (tries == 50) return;
        lb_reset (); lb_add ("rast %d %d %d %u %d %d", n, w, h, fill, xoff, yoff); add_tz (&t[0]);
        emit (lb);
        static char whole[1 << 16]; strcpy (whole, g_out);
        pixman_trapezoid_t pt; tz_from (&pt, t[0].a);
        if (pixman_trapezoid_valid (&pt) && t[0].a[1] - t[0].a[0] >= 2 && strcmp (whole, "CRASHGUARD")) {
            /* split along a horizontal line: biased to sample rows and their neighbours */
            ll top = t[0].a[0], bot = t[0].a[1], y;
            if (rng_chance (50)) y = top + 1 + (ll) (rng_u64 () % (uint64_t) (bot - top - 1));
            else { y = row_pos (n, rng_range (0, h - 1), rng_n (NY (n))) - (ll) yoff * 65536 + rng_range (-1, 1); if (y <= top || y >= bot) y = top + 1 + (ll) (rng_u64 () % (uint64_t) (bot - top - 1)); }
            tzv_t p1 = t[0], p2 = t[0]; p1.a[1] = y; p2.a[0] = y;
            lb_reset (); lb_add ("addtz %d %d %d %u %d %d 2", n, w, h, fill, xoff, yoff);
            if (rng_chance (50)) { add_tz (&p1); add_tz (&p2); } else { add_tz (&p2); add_tz (&p1); }
            emit (lb);
            if (strcmp (g_out, "CRASHGUARD") && !images_equal (whole, g_out)) fprintf (g_orc, "ORACLE %ld additivity-hsplit at y=%lld: parts rasterised separately differ from the whole (previous line)\n", g_line, y);
        }
    } else if (which < 45) {
        /* split along an interior edge: aligned trapezoid, middle line between left and right */
        gen_trapezoid (n, w, h, K_ALIGNED, &t[0]);
        if (rng_chance (40)) {   /* make the lines stick out above/below by whole multiples, same lines */
            for (int e = 0; e < 2; e++) { ll *l = t[0].a + 2 + 4 * e; ll dx = l[2] - l[0], dy = l[3] - l[1]; int k = rng_n (3); l[2] += k * dx; l[3] += k * dy; }
        }
        if (!mode && !tz_exact_ok (&t[0], h, xoff, yoff)) return;
        ll *a = t[0].a;
        ll top = a[0], bot = a[1];
        ll xl0 = a[2], xr0 = a[6];
        /* abscissae at top and bottom of the (unextended) edges */
        tzv_t base = t[0];
        ll dyl = a[5] - a[3], dxl = a[4] - a[2], dyr = a[9] - a[7], dxr = a[8] - a[6];
        ll kl = dyl / (bot - top), kr = dyr / (bot - top);
        ll xl1 = xl0 + dxl / (kl ? kl : 1), xr1 = xr0 + dxr / (kr ? kr : 1);
        ll xm0 = xl0 + (xr0 > xl0 ? (ll) (rng_u64 () % (uint64_t) (xr0 - xl0 + 1)) : 0);
        ll xm1 = xl1 + (xr1 > xl1 ? (ll) (rng_u64 () % (uint64_t) (xr1 - xl1 + 1)) : 0);
        if (rng_chance (20)) xm0 = xl0; if (rng_chance (20)) xm1 = xr1;
        lb_reset (); lb_add ("rast %d %d %d %u %d %d", n, w, h, fill, xoff, yoff); add_tz (&base);
        emit (lb);
        static char whole2[1 << 16]; strcpy (whole2, g_out);
        if (xr0 >= xl0 && xr1 >= xl1 && bot > top && strcmp (whole2, "CRASHGUARD")) {
            tzv_t p1 = base, p2 = base;
            p1.a[6] = xm0; p1.a[7] = top; p1.a[8] = xm1; p1.a[9] = bot;
            p2.a[2] = xm0; p2.a[3] = top; p2.a[4] = xm1; p2.a[5] = bot;
            if (rng_chance (30)) { /* same shared line, other endpoint order in one of the two */
                ll s; s = p2.a[2]; p2.a[2] = p2.a[4]; p2.a[4] = s; s = p2.a[3]; p2.a[3] = p2.a[5]; p2.a[5] = s; }
            lb_reset (); lb_add ("addtz %d %d %d %u %d %d 2", n, w, h, fill, xoff, yoff); add_tz (&p1); add_tz (&p2);
            emit (lb);
            if (strcmp (g_out, "CRASHGUARD") && !images_equal (whole2, g_out)) fprintf (g_orc, "ORACLE %ld additivity-edgesplit: parts sharing an interior edge differ from the whole (previous line)\n", g_line);
        }
    } else if (which < 60) {
        /* whole-pixel offsets commute: the same trapezoid pre-translated with offsets 0 */
        for (tries = 0; tries < 50; tries++) { gen_trapezoid (n, w, h, pick_kind (mode), &t[0]); if (tz_exact_ok (&t[0], h, xoff, yoff)) break; }
        if (tries == 50) return;
        lb_reset (); lb_add ("rast %d %d %d %u %d %d", n, w, h, fill, xoff, yoff); add_tz (&t[0]);
        emit (lb);
        static char whole3[1 << 16]; strcpy (whole3, g_out);
        tzv_t s = t[0];
        for (int i = 0; i < 10; i++) s.a[i] += (ll) ((i == 0 || i == 1 || i == 3 || i == 5 || i == 7 || i == 9) ? yoff : xoff) * 65536;
        lb_reset (); lb_add ("rast %d %d %d %u 0 0", n, w, h, fill); add_tz (&s);
        emit (lb);
        if (strcmp (whole3, "CRASHGUARD") && strcmp (g_out, "CRASHGUARD") && !images_equal (whole3, g_out)) fprintf (g_orc, "ORACLE %ld offset-commutes: translating the trapezoid by the whole-pixel offset gives a different image (previous line)\n", g_line);
    } else if (which < 75) {
        int cnt = rng_range (0, 5);
        for (int i = 0; i < cnt; i++) { for (tries = 0; tries < 50; tries++) { gen_trapezoid (n, w, h, pick_kind (mode), &t[i]); if (mode || tz_exact_ok (&t[i], h, xoff, yoff)) break; } if (tries == 50) return; }
        lb_reset (); lb_add ("addtz %d %d %d %u %d %d %d", n, w, h, fill, xoff, yoff, cnt);
        for (int i = 0; i < cnt; i++) add_tz (&t[i]);
        emit (lb);
    } else if (which < 88) {
        /* pixman_add_traps: top.{l,r,y} bot.{l,r,y} */
        int cnt = rng_range (1, 4);
        lb_reset (); lb_add ("addtraps %d %d %d %u %d %d %d", n, w, h, fill, xoff, yoff, cnt);
        for (int i = 0; i < cnt; i++) {
            for (tries = 0; tries < 50; tries++) {
                gen_trapezoid (n, w, h, rng_chance (80) ? K_ALIGNED : (mode ? K_EXTREME : K_TIE), &t[i]);
                ll *a = t[i].a;
                /* use the line endpoints as the trap corners */
                a[3] = a[7] = a[0]; a[5] = a[9] = a[1];
                if (rng_chance (8)) { a[1] = a[0] - rng_n (3); a[5] = a[9] = a[1]; }
                if (mode || a[1] <= a[0] || tz_exact_ok (&t[i], h, xoff, yoff)) break;
            }
            if (tries == 50) return;
            ll *a = t[i].a;
            lb_add (" %lld %lld %lld %lld %lld %lld", a[2], a[6], a[0], a[4], a[8], a[1]);
        }
        emit (lb);
    } else {
        /* triangles */
        int cnt = rng_range (1, 3);
        static ll tri[3][6];
        for (int i = 0; i < cnt; i++) {
            for (tries = 0; tries < 50; tries++) {
                int k = rng_n (mode ? 6 : 5);
                for (int p = 0; p < 3; p++) {
                    ll x, y;
                    switch (k) {
                    case 0: x = coord_near (n, w); y = coord_near (n, h); break;
                    case 1: x = col_thr (n, rng_range (0, w - 1), rng_n (NX (n))) + rng_range (-1, 1); y = row_pos (n, rng_range (0, h - 1), rng_n (NY (n))) + rng_range (-1, 1); break;
                    case 2: x = (ll) rng_range (-2, w + 2) * 65536; y = (ll) rng_range (-2, h + 2) * 65536; break;
                    case 3: x = (ll) rng_range (0, w) * 65536 + rng_n (70000); y = (ll) rng_range (0, h) * 65536 + rng_n (9000); break;
                    case 4: x = (ll) rng_range (-300, 300) * 65536 + frac_any (n); y = (ll) rng_range (-300, 300) * 65536 + frac_any (n); break;
                    default: x = (ll) rng_range (-32000, 32000) * 65536 + frac_any (n); y = (ll) rng_range (-32000, 32000) * 65536 + frac_any (n); break;
                    }
                    tri[i][2 * p] = x; tri[i][2 * p + 1] = y;
                }
                if (rng_chance (10)) { tri[i][4] = tri[i][0]; tri[i][5] = tri[i][1]; }      /* degenerate */
                if (rng_chance (10)) { tri[i][3] = tri[i][1]; }                               /* horizontal side */
                /* exactness: each side as a line over the image rows */
                int ok = 1;
                for (int p = 0; p < 3 && ok; p++) {
                    ll l[4] = { tri[i][2 * p], tri[i][2 * p + 1], tri[i][2 * ((p + 1) % 3)], tri[i][2 * ((p + 1) % 3) + 1] };
                    ok = line_exact_ok (l, h, (ll) yoff * 65536, (ll) xoff * 65536);
                }
                if (mode || ok) break;
            }
            if (tries == 50) return;
        }
        lb_reset (); lb_add ("addtri %d %d %d %u %d %d %d", n, w, h, fill, xoff, yoff, cnt);
        for (int i = 0; i < cnt; i++) for (int k = 0; k < 6; k++) lb_add (" %lld", tri[i][k]);
        emit (lb);
    }
}

static void gen_scalar_case (int mode)
{
    int n = pick_depth ();
    if (rng_chance (50)) {
        ll y;
        switch (rng_n (6)) {
        case 0: y = (ll) (int32_t) rng_u32 (); break;
        case 1: y = 2147483647LL - rng_n (140000); break;
        case 2: y = -2147483647LL - 1 + rng_n (140000); break;
        case 3: y = (ll) rng_range (-40, 40) * 65536 + Y_FRAC_FIRST (n) + rng_n (NY (n)) * STEP_Y_SMALL (n) + rng_range (-2, 2); break;
        default: y = (ll) rng_range (-40, 40) * 65536 + frac_any (n); break;
        }
        lb_reset (); lb_add ("%s %lld %d", rng_chance (50) ? "ceil" : "floor", y, n);
        emit (lb);
    } else {
        /* pixman_edge_init + pixman_edge_step with arbitrary (also negative) step counts */
        ll xt = coord_near (n, 40), yt = coord_near (n, 40);
        ll dy = rng_chance (30) ? rng_range (1, 8) : rng_chance (50) ? rng_range (1, 70000) : rng_range (1, 40) * 65536LL + frac_any (n);
        ll dx = rng_chance (20) ? 0 : rng_chance (50) ? rng_range (-70000, 70000) : rng_range (-40, 40) * 65536LL + frac_any (n);
        if (mode && rng_chance (50)) { dx = (ll) (int32_t) rng_u32 (); if (rng_chance (50)) dy = 1 + (ll) (rng_u32 () >> 1); }
        ll ys = yt + (rng_chance (20) ? 0 : rng_chance (50) ? rng_range (-70000, 70000) : (ll) rng_range (-3, 3) * dy + rng_range (-2, 2));
        int k = rng_n (5);
        lb_reset (); lb_add ("edge %d %lld %lld %lld %lld %lld %d", n, clamp_i32 (ys), xt, yt, clamp_i32 (xt + dx), clamp_i32 (yt + dy), k);
        for (int i = 0; i < k; i++) lb_add (" %d", rng_chance (50) ? (rng_chance (50) ? STEP_Y_SMALL (n) : STEP_Y_BIG (n)) : rng_chance (50) ? rng_range (-70000, 70000) : rng_range (-3, 3) * (int) (dy > 100000 ? 100000 : dy));
        emit (lb);
    }
}

static const int all_ops[] = {
    0, 1, 2, 3, 4, 5, 6, 7, 8, 9, 10, 11, 12, 13,
    0x10, 0x11, 0x12, 0x13, 0x14, 0x15, 0x16, 0x17, 0x18, 0x19, 0x1a, 0x1b,
    0x20, 0x21, 0x22, 0x23, 0x24, 0x25, 0x26, 0x27, 0x28, 0x29, 0x2a, 0x2b,
    0x30, 0x31, 0x32, 0x33, 0x34, 0x35, 0x36, 0x37, 0x38, 0x39, 0x3a, 0x3b, 0x3c, 0x3d, 0x3e };
#define N_ALL_OPS ((int) (sizeof all_ops / sizeof all_ops[0]))

/* composite requests; `variant`: 0 = x_dst = y_dst = 0 and line endpoints at top/bottom (the case in
   which the library's bounding box is right), 1 = anything */
static void gen_composite_case (int variant)
{
    int op = all_ops[rng_n (N_ALL_OPS)];
    if (rng_chance (40)) op = rng_n (14);
    int fi = rng_n (N_DST_FORMATS);
    int w = pick_size (), h = pick_size ();
    int md = pick_depth ();
    int sk = rng_n (4);
    ll sarg;
    if (sk == 0) { uint32_t a = rng_chance (40) ? 255 : rng_chance (30) ? 0 : rng_n (256); uint32_t r = rng_n (a + 1), g = rng_n (a + 1), b = rng_n (a + 1); sarg = ((ll) a << 24) | (r << 16) | (g << 8) | b; }
    else sarg = rng_u32 ();
    int xs = rng_range (-9, 9), ys = rng_range (-9, 9);
    int xd = 0, yd = 0;
    if (variant) { xd = pick_off (); yd = pick_off (); if (rng_chance (40)) { xd = rng_range (1, 5); } }
    /* route selection: ADD + opaque source + mask format == destination format takes the direct route */
    if (rng_chance (25)) { op = 12; sk = rng_chance (50) ? 2 : rng_chance (40) ? 3 : 0; if (sk == 0) sarg = 0xff000000LL | (rng_u32 () & 0xffffff); fi = 3 + rng_n (3); md = fi == 3 ? 8 : fi == 4 ? 4 : 1; }
    uint32_t fill = rng_u32 ();
    int tri = rng_chance (30);
    int cnt = rng_range (1, 3);
    lb_reset ();
    lb_add ("%s %d %d %d %d %d %d %lld %d %d %d %d %u %d", tri ? "comptri" : "comptz", op, fi, w, h, md, sk, sarg, xs, ys, xd, yd, fill, cnt);
    for (int i = 0; i < cnt; i++) {
        if (!tri) {
            tzv_t t; int tries;
            for (tries = 0; tries < 50; tries++) {
                gen_trapezoid (md, w, h, variant ? pick_kind (0) : K_ALIGNED, &t);
                if (tz_exact_ok (&t, h, xd, yd) && tz_exact_ok (&t, h, 0, 0)) break;
            }
            if (tries == 50) gen_trapezoid (md, w, h, K_ALIGNED, &t);
            add_tz (&t);
        } else {
            for (int p = 0; p < 3; p++) lb_add (" %lld %lld", coord_near (md, w), coord_near (md, h));
        }
    }
    emit (lb);
    if (strcmp (g_out, "same") && strcmp (g_out, "CRASHGUARD"))
        fprintf (g_orc, "ORACLE %ld composite-vs-mask %s\n", g_line, g_out);
}

int main (int argc, char **argv)
{
    g_noguard = getenv ("TRAP_NOGUARD") != NULL;
    if (argc >= 8 && !strcmp (argv[1], "gen")) {
        rng_seed (mix64 (strtoull (argv[2], 0, 10)));   /* rng.h seeds of consecutive numbers are the same stream shifted by one draw */ long ncases = atol (argv[3]); int mode = atoi (argv[4]);
        g_ops = fopen (argv[5], "w"); g_impl = fopen (argv[6], "w"); g_orc = fopen (argv[7], "w");
        if (!g_ops || !g_impl || !g_orc) return 2;
        for (long i = 0; i < ncases; i++) {
            if (mode == 2) gen_composite_case (0);
            else if (mode == 3) gen_composite_case (1);
            else if (rng_chance (12)) gen_scalar_case (mode);
            else gen_raster_case (mode);
        }
        fclose (g_ops); fclose (g_impl); fclose (g_orc);
        return 0;
    }
    if (argc >= 4 && !strcmp (argv[1], "exec")) {
        FILE *fi = fopen (argv[2], "r"), *fr = fopen (argv[3], "w");
        if (!fi || !fr) return 2;
        static char line[1 << 16];
        while (fgets (line, sizeof line, fi)) { exec_line (line, g_out, sizeof g_out); fprintf (fr, "%s\n", g_out); fflush (fr); }
        return 0;
    }
    fprintf (stderr, "usage: trap gen <seed> <n> <mode> <ops> <impl> <oracle> | trap exec <ops> <impl>\n");
    return 2;
}

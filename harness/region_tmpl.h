/* Region harness body, instantiated for the 16- and 32-bit region types.
 * Macros supplied by the includer: RT (region type), BT (box type), DT (data type), P(x) (function
 * prefix), BITS, CMIN, CMAX, SUF(x) (symbol suffix) */

static DT *SUF(broken_ptr);
static DT *SUF(empty_ptr);

static void SUF(capture_static)(void)
{
    RT r; BT b[2] = {{0,0,1,1},{2,2,3,3}};
    P(_init)(&r); SUF(empty_ptr) = r.data;
    fail_malloc = 1;
    P(_init_rects)(&r, b, 2);
    fail_malloc = 0;
    SUF(broken_ptr) = r.data;
    if (!r.data || r.data->size != 0 || r.data == SUF(empty_ptr)) { fprintf(stderr,"cannot capture broken data\n"); exit(3); }
}

static char SUF(kind)(RT *r)
{
    if (!r->data) return 'S';
    if (r->data == SUF(broken_ptr)) return 'B';
    if (r->data->size == 0) return 'E';
    return 'H';
}

static void SUF(ser)(FILE *f, RT *r)
{
    char k = SUF(kind)(r);
    int n = (k=='H') ? (int)r->data->numRects : 0;
    BT *b = (k=='H') ? (BT*)(r->data+1) : NULL;
    fprintf(f, "%c %d %d %d %d %d", k, (int)r->extents.x1,(int)r->extents.y1,(int)r->extents.x2,(int)r->extents.y2, n);
    for (int i=0;i<n;i++) fprintf(f," %d %d %d %d",(int)b[i].x1,(int)b[i].y1,(int)b[i].x2,(int)b[i].y2);
}

/* build a region object from its serialization */
static int SUF(deser)(char **tok, int *pos, int ntok, RT *r)
{
    if (*pos + 6 > ntok) return 0;
    char k = tok[(*pos)++][0];
    r->extents.x1 = atoi(tok[(*pos)++]); r->extents.y1 = atoi(tok[(*pos)++]);
    r->extents.x2 = atoi(tok[(*pos)++]); r->extents.y2 = atoi(tok[(*pos)++]);
    int n = atoi(tok[(*pos)++]);
    if (*pos + 4*n > ntok) return 0;
    if (k=='S') r->data = NULL;
    else if (k=='E') r->data = SUF(empty_ptr);
    else if (k=='B') r->data = SUF(broken_ptr);
    else if (k=='H') {
        int sz = n>0?n:1;
        r->data = malloc(sizeof(DT)+sz*sizeof(BT));
        r->data->size = sz; r->data->numRects = n;
        BT *b = (BT*)(r->data+1);
        for (int i=0;i<n;i++){ b[i].x1=atoi(tok[(*pos)++]); b[i].y1=atoi(tok[(*pos)++]); b[i].x2=atoi(tok[(*pos)++]); b[i].y2=atoi(tok[(*pos)++]); }
        return 1;
    } else return 0;
    *pos += 4*n;
    return 1;
}

/* ---- point-set oracle, independent of the model: membership through the rectangle list ---- */
static int SUF(mem)(RT *r, long x, long y)
{
    char k = SUF(kind)(r);
    if (k=='S') return r->extents.x1<=x && x<r->extents.x2 && r->extents.y1<=y && y<r->extents.y2;
    if (k!='H') return 0;
    BT *b=(BT*)(r->data+1); int n=r->data->numRects;
    for (int i=0;i<n;i++) if (b[i].x1<=x && x<b[i].x2 && b[i].y1<=y && y<b[i].y2) return 1;
    return 0;
}
static void SUF(coords)(RT *r, long *xs, int *nx, long *ys, int *ny)
{
    int n; BT *b;
    char k = SUF(kind)(r);
    if (k=='S'){ n=1; b=&r->extents; } else if (k=='H'){ n=r->data->numRects; b=(BT*)(r->data+1);} else return;
    for (int i=0;i<n && *nx<MAXC-8 && *ny<MAXC-8;i++){
        for (int d=-1; d<=1; d++){ xs[(*nx)++]=(long)b[i].x1+d; xs[(*nx)++]=(long)b[i].x2+d; ys[(*ny)++]=(long)b[i].y1+d; ys[(*ny)++]=(long)b[i].y2+d; }
    }
}
static int SUF(cmpl)(const void*a,const void*b){ long x=*(const long*)a,y=*(const long*)b; return x<y?-1:x>y; }
static int SUF(uniq)(long *v,int n){ qsort(v,n,sizeof(long),SUF(cmpl)); int m=0; for(int i=0;i<n;i++) if(!m||v[m-1]!=v[i]) v[m++]=v[i]; return m; }

/* strict canonical form (the library's selfcheck skips the first rectangle and band merging) */
static const char *SUF(canon)(RT *r)
{
    char k=SUF(kind)(r);
    if (k=='B') return NULL;
    if (k=='E') return NULL;   /* extents of an empty region: checked by the equal() oracle */
    if (k=='S') return (r->extents.x1<r->extents.x2 && r->extents.y1<r->extents.y2)?NULL:"single rectangle is empty";
    int n=r->data->numRects; BT*b=(BT*)(r->data+1);
    if (n==0) return "heap block with no rectangle";
    if (n==1) return "single rectangle stored as a list";
    long ex1=b[0].x1, ex2=b[0].x2;
    for (int i=0;i<n;i++){
        if (!(b[i].x1<b[i].x2 && b[i].y1<b[i].y2)) return "empty rectangle in list";
        if (b[i].x1<ex1) ex1=b[i].x1; if (b[i].x2>ex2) ex2=b[i].x2;
        if (i){
            if (b[i].y1==b[i-1].y1){ if (b[i].y2!=b[i-1].y2) return "band members differ in y2"; if (!(b[i-1].x2<b[i].x1)) return "band members touch or out of order"; }
            else if (!(b[i-1].y2<=b[i].y1)) return "bands overlap or out of order";
        }
    }
    /* vertically adjacent bands with identical spans must have been merged */
    int s=0;
    while (s<n){
        int e=s; while(e<n && b[e].y1==b[s].y1) e++;
        int e2=e; while(e2<n && b[e2].y1==b[e].y1) e2++;
        if (e<n && b[s].y2==b[e].y1 && e-s==e2-e){ int same=1; for(int i=0;i<e-s;i++) if(b[s+i].x1!=b[e+i].x1||b[s+i].x2!=b[e+i].x2) same=0; if(same) return "mergeable bands not merged"; }
        s=e;
    }
    if (r->extents.x1!=ex1||r->extents.x2!=ex2||r->extents.y1!=b[0].y1||r->extents.y2!=b[n-1].y2) return "extents not the bounding box";
    return NULL;
}

/* expected membership: 0 union 1 intersect 2 subtract */
static const char *SUF(algebra)(int op, RT *res, RT *a, RT *b, BT *ibox)
{
    static long xs[MAXC], ys[MAXC]; int nx=0, ny=0;
    SUF(coords)(res,xs,&nx,ys,&ny); SUF(coords)(a,xs,&nx,ys,&ny); if (b) SUF(coords)(b,xs,&nx,ys,&ny);
    if (ibox){ for(int d=-1;d<=1;d++){ xs[nx++]=(long)ibox->x1+d; xs[nx++]=(long)ibox->x2+d; ys[ny++]=(long)ibox->y1+d; ys[ny++]=(long)ibox->y2+d; } }
    nx=SUF(uniq)(xs,nx); ny=SUF(uniq)(ys,ny);
    for (int i=0;i<nx;i++) for (int j=0;j<ny;j++){
        long x=xs[i],y=ys[j];
        if (x<CMIN||x>CMAX||y<CMIN||y>CMAX) continue;
        int ma=SUF(mem)(a,x,y), mb=b?SUF(mem)(b,x,y):0, mr=SUF(mem)(res,x,y), want;
        int inb = ibox ? (ibox->x1<=x&&x<ibox->x2&&ibox->y1<=y&&y<ibox->y2) : 0;
        switch(op){ case 0: want=ma||mb; break; case 1: want=ma&&mb; break; case 2: want=ma&&!mb; break;
                    case 3: want=inb&&!ma; break; case 4: want=ma||inb; break; case 5: want=ma&&inb; break; default: want=ma; }
        if (want!=mr){ static char msg[128]; snprintf(msg,sizeof msg,"point (%ld,%ld): expected %d got %d",x,y,want,mr); return msg; }
    }
    return NULL;
}

#define NPOOL 6
static RT SUF(pool)[NPOOL];

static int SUF(pick_coord)(int lim)
{
    /* small dense range so that edges coincide often, mixed with edges of pool rectangles and the
     * type limits */
    int c = rng_n(100);
    if (c < 70 - (lim?25:0)) return rng_range(-3, 12);
    if (c < 85 - (lim?25:0)) {
        RT *r=&SUF(pool)[rng_n(NPOOL)]; int n; BT *b=P(_rectangles)(r,&n);
        if (n>0){ BT*q=&b[rng_n(n)]; int v; switch(rng_n(4)){case 0:v=q->x1;break;case 1:v=q->x2;break;case 2:v=q->y1;break;default:v=q->y2;} long w=(long)v+rng_range(-1,1); if(w<CMIN)w=CMIN; if(w>CMAX)w=CMAX; return (int)w; }
        return rng_range(-3,12);
    }
    if (c < 93) return rng_range(-40, 60);
    switch (rng_n(6)) { case 0: return CMIN; case 1: return CMIN+1+rng_n(3); case 2: return CMAX; case 3: return CMAX-1-rng_n(3);
                        case 4: return CMAX-rng_n(200); default: return CMIN+rng_n(200); }
}
static void SUF(pick_box)(BT *b, int lim, int allow_degenerate)
{
    for(;;){
        int x1=SUF(pick_coord)(lim), x2=SUF(pick_coord)(lim), y1=SUF(pick_coord)(lim), y2=SUF(pick_coord)(lim);
        if (!allow_degenerate || rng_chance(90)) { if (x1>x2){int t=x1;x1=x2;x2=t;} if (y1>y2){int t=y1;y1=y2;y2=t;} }
        if (!allow_degenerate && (x1>=x2||y1>=y2)) continue;
        b->x1=x1;b->y1=y1;b->x2=x2;b->y2=y2; return;
    }
}

static void SUF(out_res)(FILE *f, int ret, RT *r){ fprintf(f,"%d ",ret); SUF(ser)(f,r); fprintf(f,"\n"); }

static long SUF(lineno);
static int SUF(pre_ok);   /* operands of the current step were canonical: only then is the oracle binding */
static int SUF(dirty)[8];
static void SUF(oracle_fail)(FILE *fo, const char *what){ if (SUF(pre_ok)) fprintf(fo,"ORACLE %ld %s\n", SUF(lineno), what); }

static void SUF(post)(FILE *fo, RT *res)
{
    const char *c = SUF(canon)(res);
    if (c) SUF(oracle_fail)(fo,c);
    /* derived queries must describe the set */
    int n=P(_n_rects)(res); int ne=P(_not_empty)(res);
    char k=SUF(kind)(res);
    int truly_nonempty=0;
    if (k=='S') truly_nonempty = res->extents.x1<res->extents.x2 && res->extents.y1<res->extents.y2;
    if (k=='H'){ BT*b=(BT*)(res->data+1); for(int i=0;i<res->data->numRects;i++) if(b[i].x1<b[i].x2&&b[i].y1<b[i].y2) truly_nonempty=1; }
    if ((ne!=0)!=truly_nonempty) SUF(oracle_fail)(fo,"not_empty disagrees with the point set");
    (void)n;
}

/* one random step of the history; writes the request line to fi, the implementation's answer to
 * fr, spec-oracle failures to fo */
static void SUF(step)(FILE *fi, FILE *fr, FILE *fo, int lim)
{
    int op = rng_n(100);
    int d = rng_n(NPOOL), a = rng_n(NPOOL), b = rng_n(NPOOL);
    if (rng_chance(25)) d = a; else if (rng_chance(15)) d = b;
    if (rng_chance(8)) b = a;
    RT *D=&SUF(pool)[d], *A=&SUF(pool)[a], *B=&SUF(pool)[b];
    RT ca, cb; /* copies of operands for the oracle (operands may alias the result) */
    SUF(lineno)++;
    /* a region left non-canonical by an earlier (reported) failure is replaced, so that one defect
     * is not reported again through its consequences */
    for (int i=0;i<NPOOL;i++) if (SUF(canon)(&SUF(pool)[i]) || (SUF(kind)(&SUF(pool)[i])=='H' && SUF(pool)[i].data->numRects<2)) { P(_fini)(&SUF(pool)[i]); P(_init)(&SUF(pool)[i]); }
    SUF(pre_ok)=1;
    if (op < 45) {
        int which = rng_n(3); /* union intersect subtract */
        const char *nm[3]={"union","intersect","subtract"};
        P(_init)(&ca); P(_init)(&cb); P(_copy)(&ca,A); P(_copy)(&cb,B);
        fprintf(fi,"%s %d %d ", nm[which], BITS, A==B);
        fprintf(fi,"%s ", D==A?"1":(D==B?"2":"n"));
        SUF(ser)(fi,D); fprintf(fi," "); SUF(ser)(fi,A); fprintf(fi," "); SUF(ser)(fi,B); fprintf(fi,"\n");
        int ret = which==0?P(_union)(D,A,B): which==1?P(_intersect)(D,A,B):P(_subtract)(D,A,B);
        SUF(out_res)(fr,ret,D);
        if (!ret) SUF(oracle_fail)(fo,"operation reported failure");
        const char *e=SUF(algebra)(which,D,&ca,&cb,NULL); if(e) SUF(oracle_fail)(fo,e);
        SUF(post)(fo,D);
        P(_fini)(&ca); P(_fini)(&cb);
    } else if (op < 55) {
        BT box; SUF(pick_box)(&box,lim,0);
        int w=box.x2-box.x1,h=box.y2-box.y1;
        int isu = rng_chance(50);
        if (rng_chance(10)) { if (rng_chance(50)) w=0; else h=0; }
        P(_init)(&ca); P(_copy)(&ca,A);
        BT ib={box.x1,box.y1,box.x1+w,box.y1+h};
        if (isu) fprintf(fi,"union_rect %d %s ",BITS,D==A?"1":"n"); else fprintf(fi,"intersect_rect %d ",BITS);
        SUF(ser)(fi,D); fprintf(fi," "); SUF(ser)(fi,A); fprintf(fi," %d %d %u %u\n",(int)box.x1,(int)box.y1,(unsigned)w,(unsigned)h);
        int ret = isu?P(_union_rect)(D,A,box.x1,box.y1,w,h):P(_intersect_rect)(D,A,box.x1,box.y1,w,h);
        SUF(out_res)(fr,ret,D);
        if (!ret) SUF(oracle_fail)(fo,"operation reported failure");
        const char *e=SUF(algebra)(isu?4:5,D,&ca,NULL,&ib); if(e) SUF(oracle_fail)(fo,e);
        SUF(post)(fo,D);
        P(_fini)(&ca);
    } else if (op < 60) {
        BT box; SUF(pick_box)(&box,lim,0);
        P(_init)(&ca); P(_copy)(&ca,A);
        fprintf(fi,"inverse %d ",BITS); SUF(ser)(fi,D); fprintf(fi," "); SUF(ser)(fi,A);
        fprintf(fi," %d %d %d %d\n",(int)box.x1,(int)box.y1,(int)box.x2,(int)box.y2);
        int ret=P(_inverse)(D,A,&box);
        SUF(out_res)(fr,ret,D);
        if (!ret) SUF(oracle_fail)(fo,"operation reported failure");
        const char *e=SUF(algebra)(3,D,&ca,NULL,&box); if(e) SUF(oracle_fail)(fo,e);
        SUF(post)(fo,D);
        P(_fini)(&ca);
    } else if (op < 68) {
        /* init_rects: any order, overlapping, degenerate */
        int n = rng_chance(10)?rng_n(3):1+rng_n(rng_chance(10)?40:7);
        static BT bx[64];
        for (int i=0;i<n;i++) SUF(pick_box)(&bx[i],lim,1);
        P(_fini)(D);
        fprintf(fi,"init_rects %d %d",BITS,n); for(int i=0;i<n;i++) fprintf(fi," %d %d %d %d",(int)bx[i].x1,(int)bx[i].y1,(int)bx[i].x2,(int)bx[i].y2); fprintf(fi,"\n");
        int ret=P(_init_rects)(D,bx,n);
        SUF(out_res)(fr,ret,D);
        if (!ret) SUF(oracle_fail)(fo,"operation reported failure");
        /* oracle: points of the result = union of the non-degenerate boxes */
        {
            static long xs[MAXC], ys[MAXC]; int nx=0,ny=0;
            SUF(coords)(D,xs,&nx,ys,&ny);
            for(int i=0;i<n;i++) for(int dd=-1;dd<=1;dd++){ xs[nx++]=(long)bx[i].x1+dd; xs[nx++]=(long)bx[i].x2+dd; ys[ny++]=(long)bx[i].y1+dd; ys[ny++]=(long)bx[i].y2+dd; }
            nx=SUF(uniq)(xs,nx); ny=SUF(uniq)(ys,ny);
            int bad=0;
            for(int i=0;i<nx&&!bad;i++)for(int j=0;j<ny&&!bad;j++){ long x=xs[i],y=ys[j]; if(x<CMIN||x>CMAX||y<CMIN||y>CMAX)continue; int w=0; for(int q=0;q<n;q++) if(bx[q].x1<=x&&x<bx[q].x2&&bx[q].y1<=y&&y<bx[q].y2) w=1; if(w!=SUF(mem)(D,x,y)){ char m[96]; snprintf(m,sizeof m,"init_rects point (%ld,%ld): expected %d",x,y,w); SUF(oracle_fail)(fo,m); bad=1; } }
        }
        SUF(post)(fo,D);
    } else if (op < 72) {
        BT box; SUF(pick_box)(&box,lim,1);
        int w=box.x2-box.x1,h=box.y2-box.y1; if (w<0) w=0; if (h<0) h=0;
        P(_fini)(D);
        if (rng_chance(50)) { fprintf(fi,"init_rect %d %d %d %u %u\n",BITS,(int)box.x1,(int)box.y1,(unsigned)w,(unsigned)h); P(_init_rect)(D,box.x1,box.y1,w,h); }
        else { BT e={box.x1,box.y1,box.x1+w,box.y1+h}; fprintf(fi,"init_with_extents %d %d %d %d %d\n",BITS,(int)e.x1,(int)e.y1,(int)e.x2,(int)e.y2); P(_init_with_extents)(D,&e); }
        SUF(out_res)(fr,1,D); SUF(post)(fo,D);
    } else if (op < 76) {
        fprintf(fi,"copy %d ",BITS); SUF(ser)(fi,D); fprintf(fi," "); SUF(ser)(fi,A); fprintf(fi,"\n");
        int ret=P(_copy)(D,A); SUF(out_res)(fr,ret,D);
        if (!P(_equal)(D,A)) SUF(oracle_fail)(fo,"copy is not equal to its source");
        SUF(post)(fo,D);
    } else if (op < 78) {
        if (rng_chance(50)) { fprintf(fi,"clear %d\n",BITS); P(_clear)(D); }
        else { BT box; SUF(pick_box)(&box,lim,0); fprintf(fi,"reset %d %d %d %d %d\n",BITS,(int)box.x1,(int)box.y1,(int)box.x2,(int)box.y2); P(_reset)(D,&box); }
        SUF(out_res)(fr,1,D); SUF(post)(fo,D);
    } else if (op < 84) {
        fprintf(fi,"equal %d ",BITS); SUF(ser)(fi,A); fprintf(fi," "); SUF(ser)(fi,B); fprintf(fi,"\n");
        int ret=P(_equal)(A,B); fprintf(fr,"%d\n",ret);
        /* oracle: equal <-> same points on the joint grid */
        static long xs[MAXC], ys[MAXC]; int nx=0,ny=0; SUF(coords)(A,xs,&nx,ys,&ny); SUF(coords)(B,xs,&nx,ys,&ny); nx=SUF(uniq)(xs,nx); ny=SUF(uniq)(ys,ny);
        int same=1; for(int i=0;i<nx&&same;i++)for(int j=0;j<ny&&same;j++) if(SUF(mem)(A,xs[i],ys[j])!=SUF(mem)(B,xs[i],ys[j])) same=0;
        if (SUF(kind)(A)!='B' && SUF(kind)(B)!='B' && (ret!=0)!=same) SUF(oracle_fail)(fo,"equal() disagrees with point-set equality");
    } else if (op < 90) {
        /* queries */
        int x=SUF(pick_coord)(lim), y=SUF(pick_coord)(lim);
        if (rng_chance(50)) {
            BT out={0,0,0,0};
            fprintf(fi,"contains_point %d ",BITS); SUF(ser)(fi,A); fprintf(fi," %d %d\n",x,y);
            int ret=P(_contains_point)(A,x,y,&out);
            if (ret) fprintf(fr,"1 %d %d %d %d\n",(int)out.x1,(int)out.y1,(int)out.x2,(int)out.y2); else fprintf(fr,"0\n");
            if ((ret!=0)!=SUF(mem)(A,x,y)) SUF(oracle_fail)(fo,"contains_point disagrees with membership");
            if (ret && !(out.x1<=x&&x<out.x2&&out.y1<=y&&y<out.y2)) SUF(oracle_fail)(fo,"contains_point box does not hold the point");
        } else {
            BT q; SUF(pick_box)(&q,lim,0);
            fprintf(fi,"contains_rect %d ",BITS); SUF(ser)(fi,A); fprintf(fi," %d %d %d %d\n",(int)q.x1,(int)q.y1,(int)q.x2,(int)q.y2);
            int ret=P(_contains_rectangle)(A,&q);
            fprintf(fr,"%s\n",ret==PIXMAN_REGION_IN?"IN":ret==PIXMAN_REGION_OUT?"OUT":"PART");
            static long xs[MAXC], ys[MAXC]; int nx=0,ny=0; SUF(coords)(A,xs,&nx,ys,&ny);
            for(int dd=0;dd<=0;dd++){ xs[nx++]=q.x1; xs[nx++]=(long)q.x2-1; ys[ny++]=q.y1; ys[ny++]=(long)q.y2-1; }
            nx=SUF(uniq)(xs,nx); ny=SUF(uniq)(ys,ny);
            int any=0, all=1;
            for(int i=0;i<nx;i++)for(int j=0;j<ny;j++){ long px=xs[i],py=ys[j]; if(!(q.x1<=px&&px<q.x2&&q.y1<=py&&py<q.y2)) continue; if(SUF(mem)(A,px,py)) any=1; else all=0; }
            int want = !any?PIXMAN_REGION_OUT: all?PIXMAN_REGION_IN:PIXMAN_REGION_PART;
            if (want!=ret) SUF(oracle_fail)(fo,"contains_rectangle disagrees with the point set");
        }
    } else if (op < 97) {
        int dx, dy;
        int c = rng_n(10);
        BT *e=&A->extents;
        if (c<3){ dx=rng_range(-5,5); dy=rng_range(-5,5);} 
        else if (c<6){ long v=(long)CMAX-e->x2+rng_range(-2,2); long w=(long)CMAX-e->y2+rng_range(-2,2); dx=rng_chance(70)?(int)v:rng_range(-3,3); dy=rng_chance(50)?(int)w:rng_range(-3,3);} 
        else if (c<9){ long v=(long)CMIN-e->x1+rng_range(-2,2); long w=(long)CMIN-e->y1+rng_range(-2,2); dx=rng_chance(70)?(int)v:rng_range(-3,3); dy=rng_chance(50)?(int)w:rng_range(-3,3);} 
        else { dx=SUF(pick_coord)(1); dy=SUF(pick_coord)(1); if (rng_chance(50)) { dx = dx>0? CMAX-rng_n(70000): CMIN+rng_n(70000);} }
        if (BITS==16){ if(dx>70000)dx=70000; if(dx<-70000)dx=-70000; if(dy>70000)dy=70000; if(dy<-70000)dy=-70000; }
        P(_init)(&ca); P(_copy)(&ca,A);
        fprintf(fi,"translate %d ",BITS); SUF(ser)(fi,A); fprintf(fi," %d %d\n",dx,dy);
        P(_translate)(A,dx,dy);
        SUF(out_res)(fr,1,A);
        /* oracle: p in result <-> p-d in old and p in [MIN,MAX)^2  (grid: translated edges) */
        {
            static long xs[MAXC], ys[MAXC]; int nx=0,ny=0; SUF(coords)(A,xs,&nx,ys,&ny);
            int n0; BT*b0=P(_rectangles)(&ca,&n0);
            for(int i=0;i<n0&&nx<MAXC-8;i++) for(int dd=-1;dd<=1;dd++){ xs[nx++]=(long)b0[i].x1+dx+dd; xs[nx++]=(long)b0[i].x2+dx+dd; ys[ny++]=(long)b0[i].y1+dy+dd; ys[ny++]=(long)b0[i].y2+dy+dd; }
            xs[nx++]=CMIN; xs[nx++]=(long)CMAX-1; xs[nx++]=CMAX; ys[ny++]=CMIN; ys[ny++]=(long)CMAX-1; ys[ny++]=CMAX;
            nx=SUF(uniq)(xs,nx); ny=SUF(uniq)(ys,ny); int bad=0;
            for(int i=0;i<nx&&!bad;i++)for(int j=0;j<ny&&!bad;j++){ long x=xs[i],y=ys[j]; if(x<CMIN||x>CMAX||y<CMIN||y>CMAX)continue;
                int want = (x<CMAX && y<CMAX) && SUF(mem)(&ca,x-dx,y-dy);
                if (want!=SUF(mem)(A,x,y)){ char m[128]; snprintf(m,sizeof m,"translate point (%ld,%ld): expected %d",x,y,want); SUF(oracle_fail)(fo,m); bad=1; } }
        }
        SUF(post)(fo,A);
        P(_fini)(&ca);
    } else {
        /* bitmap import */
        int w = rng_chance(20)? rng_range(0,3) : rng_chance(50)? rng_range(28,36) : rng_range(1,130);
        int h = rng_range(0,6);
        int stride = ((w+31)/32)*4 + (rng_chance(30)?4:0); if (stride==0) stride=4;
        uint32_t *bits = calloc(1,(size_t)stride*(h?h:1)+8);
        int style=rng_n(3);
        for (int y=0;y<h;y++) { int runv=rng_n(2); for (int x=0;x<w;x++){ if (style==0) runv=rng_n(2); else if (style==1){ if(rng_chance(20)) runv=!runv; } else { if (y>0 && rng_chance(85)) runv = (bits[(y-1)*(stride/4)+(x>>5)]>>(x&31))&1; else if(rng_chance(30)) runv=!runv; }
              if (runv) bits[y*(stride/4)+(x>>5)] |= 1u<<(x&31); } }
        /* padding bits beyond width are set at random: they must be ignored */
        for (int y=0;y<h;y++) for (int x=w; x<stride*8; x++) if (rng_chance(50)) bits[y*(stride/4)+(x>>5)] |= 1u<<(x&31);
        pixman_image_t *img = (w>0&&h>0)? pixman_image_create_bits(PIXMAN_a1,w,h,bits,stride):NULL;
        if (img) {
            P(_fini)(D);
            fprintf(fi,"from_image %d %d %d",BITS,w,h);
            for(int y=0;y<h;y++){ fprintf(fi," "); for(int x=0;x<w;x++) fputc(((bits[y*(stride/4)+(x>>5)]>>(x&31))&1)?'1':'0',fi); }
            fprintf(fi,"\n");
            P(_init_from_image)(D,img);
            SUF(out_res)(fr,1,D);
            int bad=0; for(int y=-1;y<=h&&!bad;y++)for(int x=-1;x<=w&&!bad;x++){ int want=(x>=0&&x<w&&y>=0&&y<h)?((bits[y*(stride/4)+(x>>5)]>>(x&31))&1):0; if(want!=SUF(mem)(D,x,y)){ char m[96]; snprintf(m,sizeof m,"from_image point (%d,%d): expected %d",x,y,want); SUF(oracle_fail)(fo,m); bad=1; } }
            SUF(post)(fo,D);
            pixman_image_unref(img);
        } else { SUF(lineno)--; }
        free(bits);
    }
}

/* execute one request line (tokens) on fresh objects: used for replay and shrinking */
static int SUF(exec)(char **tok, int ntok, FILE *fr, FILE *fo)
{
    SUF(pre_ok)=1;
    int pos=2; const char *op=tok[0];
    RT D,A,B; int ret=1;
    #define NEED(k) if (pos+(k)>ntok) return 0
    if (!strcmp(op,"union")||!strcmp(op,"intersect")||!strcmp(op,"subtract")) {
        NEED(2); int same=atoi(tok[pos++]); char al=tok[pos++][0];
        if (!SUF(deser)(tok,&pos,ntok,&D)||!SUF(deser)(tok,&pos,ntok,&A)||!SUF(deser)(tok,&pos,ntok,&B)) return 0;
        RT *pa=&A,*pb=&B,*pd=&D;
        if (same) pb=pa;
        if (al=='1') pd=pa; else if (al=='2') pd=pb;
        RT ca,cb; P(_init)(&ca); P(_init)(&cb); P(_copy)(&ca,pa); P(_copy)(&cb,pb);
        SUF(pre_ok) = !SUF(canon)(pa) && !SUF(canon)(pb);
        int which = !strcmp(op,"union")?0: !strcmp(op,"intersect")?1:2;
        ret = which==0?P(_union)(pd,pa,pb): which==1?P(_intersect)(pd,pa,pb):P(_subtract)(pd,pa,pb);
        SUF(out_res)(fr,ret,pd);
        if (fo) { if(!ret) SUF(oracle_fail)(fo,"operation reported failure"); const char*e=SUF(algebra)(which,pd,&ca,&cb,NULL); if(e) SUF(oracle_fail)(fo,e); SUF(post)(fo,pd); }
        return 1;
    }
    if (!strcmp(op,"union_rect")||!strcmp(op,"intersect_rect")) {
        char al='n'; if (!strcmp(op,"union_rect")) { NEED(1); al=tok[pos++][0]; }
        if (!SUF(deser)(tok,&pos,ntok,&D)||!SUF(deser)(tok,&pos,ntok,&A)) return 0; NEED(4);
        int x=atoi(tok[pos]),y=atoi(tok[pos+1]); unsigned w=strtoul(tok[pos+2],0,10),h=strtoul(tok[pos+3],0,10);
        RT *pd = al=='1'?&A:&D;
        RT ca; P(_init)(&ca); P(_copy)(&ca,&A); SUF(pre_ok) = !SUF(canon)(&A);
        BT ib={x,y,x+(int)w,y+(int)h}; int isu=!strcmp(op,"union_rect");
        ret = isu?P(_union_rect)(pd,&A,x,y,w,h):P(_intersect_rect)(pd,&A,x,y,w,h);
        SUF(out_res)(fr,ret,pd);
        if (fo) { if(!ret) SUF(oracle_fail)(fo,"operation reported failure"); const char*e=SUF(algebra)(isu?4:5,pd,&ca,NULL,&ib); if(e) SUF(oracle_fail)(fo,e); SUF(post)(fo,pd); }
        return 1;
    }
    if (!strcmp(op,"inverse")) { if (!SUF(deser)(tok,&pos,ntok,&D)||!SUF(deser)(tok,&pos,ntok,&A)) return 0; NEED(4); BT b={atoi(tok[pos]),atoi(tok[pos+1]),atoi(tok[pos+2]),atoi(tok[pos+3])}; RT ca; P(_init)(&ca); P(_copy)(&ca,&A); SUF(pre_ok)=!SUF(canon)(&A); ret=P(_inverse)(&D,&A,&b); SUF(out_res)(fr,ret,&D);
        if (fo) { if(!ret) SUF(oracle_fail)(fo,"operation reported failure"); const char*e=SUF(algebra)(3,&D,&ca,NULL,&b); if(e) SUF(oracle_fail)(fo,e); SUF(post)(fo,&D); } return 1; }
    if (!strcmp(op,"init_rects")) { NEED(1); int n=atoi(tok[pos++]); NEED(4*n); BT *bx=malloc(sizeof(BT)*(n+1)); for(int i=0;i<n;i++){bx[i].x1=atoi(tok[pos++]);bx[i].y1=atoi(tok[pos++]);bx[i].x2=atoi(tok[pos++]);bx[i].y2=atoi(tok[pos++]);} ret=P(_init_rects)(&D,bx,n); free(bx); SUF(out_res)(fr,ret,&D); return 1; }
    if (!strcmp(op,"init_rect")) { NEED(4); P(_init_rect)(&D,atoi(tok[pos]),atoi(tok[pos+1]),strtoul(tok[pos+2],0,10),strtoul(tok[pos+3],0,10)); SUF(out_res)(fr,1,&D); return 1; }
    if (!strcmp(op,"init_with_extents")) { NEED(4); BT b={atoi(tok[pos]),atoi(tok[pos+1]),atoi(tok[pos+2]),atoi(tok[pos+3])}; P(_init_with_extents)(&D,&b); SUF(out_res)(fr,1,&D); return 1; }
    if (!strcmp(op,"copy")) { if (!SUF(deser)(tok,&pos,ntok,&D)||!SUF(deser)(tok,&pos,ntok,&A)) return 0; ret=P(_copy)(&D,&A); SUF(out_res)(fr,ret,&D); return 1; }
    if (!strcmp(op,"clear")) { P(_init)(&D); P(_clear)(&D); SUF(out_res)(fr,1,&D); return 1; }
    if (!strcmp(op,"reset")) { NEED(4); BT b={atoi(tok[pos]),atoi(tok[pos+1]),atoi(tok[pos+2]),atoi(tok[pos+3])}; P(_init)(&D); P(_reset)(&D,&b); SUF(out_res)(fr,1,&D); return 1; }
    if (!strcmp(op,"equal")) { if (!SUF(deser)(tok,&pos,ntok,&A)||!SUF(deser)(tok,&pos,ntok,&B)) return 0; fprintf(fr,"%d\n",P(_equal)(&A,&B)); return 1; }
    if (!strcmp(op,"not_empty")) { if (!SUF(deser)(tok,&pos,ntok,&A)) return 0; fprintf(fr,"%d\n",P(_not_empty)(&A)); return 1; }
    if (!strcmp(op,"contains_point")) { if (!SUF(deser)(tok,&pos,ntok,&A)) return 0; NEED(2); BT out={0,0,0,0}; ret=P(_contains_point)(&A,atoi(tok[pos]),atoi(tok[pos+1]),&out); if(ret) fprintf(fr,"1 %d %d %d %d\n",(int)out.x1,(int)out.y1,(int)out.x2,(int)out.y2); else fprintf(fr,"0\n"); return 1; }
    if (!strcmp(op,"contains_rect")) { if (!SUF(deser)(tok,&pos,ntok,&A)) return 0; NEED(4); BT q={atoi(tok[pos]),atoi(tok[pos+1]),atoi(tok[pos+2]),atoi(tok[pos+3])}; ret=P(_contains_rectangle)(&A,&q); fprintf(fr,"%s\n",ret==PIXMAN_REGION_IN?"IN":ret==PIXMAN_REGION_OUT?"OUT":"PART"); return 1; }
    if (!strcmp(op,"translate")) { if (!SUF(deser)(tok,&pos,ntok,&A)) return 0; NEED(2); int dx=atoi(tok[pos]),dy=atoi(tok[pos+1]); RT ca; P(_init)(&ca); P(_copy)(&ca,&A); SUF(pre_ok)=!SUF(canon)(&A); P(_translate)(&A,dx,dy); SUF(out_res)(fr,1,&A);
        if (fo) { int n0; BT*b0=P(_rectangles)(&ca,&n0); int bad=0;
            static long xs[MAXC], ys[MAXC]; int nx=0,ny=0; SUF(coords)(&A,xs,&nx,ys,&ny);
            for(int i=0;i<n0&&nx<MAXC-8;i++) for(int dd=-1;dd<=1;dd++){ xs[nx++]=(long)b0[i].x1+dx+dd; xs[nx++]=(long)b0[i].x2+dx+dd; ys[ny++]=(long)b0[i].y1+dy+dd; ys[ny++]=(long)b0[i].y2+dy+dd; }
            xs[nx++]=CMIN; xs[nx++]=(long)CMAX-1; xs[nx++]=CMAX; ys[ny++]=CMIN; ys[ny++]=(long)CMAX-1; ys[ny++]=CMAX; nx=SUF(uniq)(xs,nx); ny=SUF(uniq)(ys,ny);
            for(int i=0;i<nx&&!bad;i++)for(int j=0;j<ny&&!bad;j++){ long x=xs[i],y=ys[j]; if(x<CMIN||x>CMAX||y<CMIN||y>CMAX)continue; int want=(x<CMAX&&y<CMAX)&&SUF(mem)(&ca,x-dx,y-dy); if(want!=SUF(mem)(&A,x,y)){ char m[128]; snprintf(m,sizeof m,"translate point (%ld,%ld): expected %d",x,y,want); SUF(oracle_fail)(fo,m); bad=1; } }
            SUF(post)(fo,&A); } return 1; }
    if (!strcmp(op,"from_image")) { NEED(2); int w=atoi(tok[pos++]),h=atoi(tok[pos++]); NEED(h); int stride=((w+31)/32)*4; uint32_t*bits=calloc(1,(size_t)stride*h+8);
        for(int y=0;y<h;y++){ const char*s=tok[pos++]; for(int x=0;x<w&&s[x];x++) if(s[x]=='1') bits[y*(stride/4)+(x>>5)]|=1u<<(x&31);} pixman_image_t*img=pixman_image_create_bits(PIXMAN_a1,w,h,bits,stride); P(_init)(&D); P(_init_from_image)(&D,img); SUF(out_res)(fr,1,&D); pixman_image_unref(img); free(bits); return 1; }
    #undef NEED
    return 0;
}

/* Region part of the allocation-failure harness, instantiated for region16 and region32.
 * Includer supplies RT BT DT P(x) SUF(x) BITS. */

static DT *SUF(broken_ptr);
static DT *SUF(empty_ptr);

static void SUF(capture_static)(void)
{
    RT r; BT b[2] = {{0,0,1,1},{2,2,3,3}};
    P(_init)(&r); SUF(empty_ptr) = r.data;
    af_mode = 2; af_k = 1; af_req = 0; af_armed = 1;
    P(_init_rects)(&r, b, 2);
    af_armed = 0; af_mode = 0;
    SUF(broken_ptr) = r.data;
    if (!r.data || r.data->size != 0 || r.data == SUF(empty_ptr)) { fprintf(stderr,"cannot capture broken data\n"); exit(3); }
}

static char SUF(kind)(RT *r)
{
    if (!r->data) return 'S';
    if (r->data == SUF(broken_ptr)) return 'B';
    if (r->data->size == 0) return 'E';
    return 'H';
}

/* <K> <size> <x1> <y1> <x2> <y2> <n> <rects> */
static int SUF(ser)(char *o, size_t cap, RT *r)
{
    char k = SUF(kind)(r);
    long n = (k=='H') ? r->data->numRects : 0;
    long sz = (k=='H') ? r->data->size : 0;
    BT *b = (k=='H') ? (BT*)(r->data+1) : NULL;
    int p = snprintf(o, cap, "%c %ld %d %d %d %d %ld", k, sz, (int)r->extents.x1,(int)r->extents.y1,(int)r->extents.x2,(int)r->extents.y2, n);
    for (long i=0;i<n && (size_t)p+64<cap;i++) p += snprintf(o+p, cap-p, " %d %d %d %d",(int)b[i].x1,(int)b[i].y1,(int)b[i].x2,(int)b[i].y2);
    return p;
}

/* build a region object from its serialization; heap blocks are tracked as live */
static int SUF(deser)(char **tok, int *pos, int ntok, RT *r)
{
    if (*pos + 7 > ntok) return 0;
    char k = tok[(*pos)++][0];
    long sz = atol(tok[(*pos)++]);
    r->extents.x1 = atoi(tok[(*pos)++]); r->extents.y1 = atoi(tok[(*pos)++]);
    r->extents.x2 = atoi(tok[(*pos)++]); r->extents.y2 = atoi(tok[(*pos)++]);
    long n = atol(tok[(*pos)++]);
    if (*pos + 4*n > ntok) return 0;
    if (k=='S') r->data = NULL;
    else if (k=='E') r->data = SUF(empty_ptr);
    else if (k=='B') r->data = SUF(broken_ptr);
    else if (k=='H') {
        if (sz < n || sz < 1) return 0;
        r->data = af_given(sizeof(DT)+sz*sizeof(BT));
        r->data->size = sz; r->data->numRects = n;
        BT *b = (BT*)(r->data+1);
        for (long i=0;i<n;i++){ b[i].x1=atoi(tok[(*pos)++]); b[i].y1=atoi(tok[(*pos)++]); b[i].x2=atoi(tok[(*pos)++]); b[i].y2=atoi(tok[(*pos)++]); }
        return 1;
    } else return 0;
    *pos += 4*n;
    return 1;
}

static int SUF(is_broken)(RT *r){ return SUF(kind)(r)=='B' && r->extents.x1==r->extents.x2 && r->extents.y1==r->extents.y2; }

#define MAXOBJ 4
/* Execute one `rg` request.  tok[0]="rg" tok[1]=bits tok[2]=mode tok[3]=k tok[4]=op tok[5]=nobj ...
 * Writes the reply into out; appends oracle complaints to orc. */
static int SUF(exec_rg)(char **tok, int nt, char *out, size_t cap, char *orc, size_t ocap)
{
    const char *op = tok[4];
    int nobj = atoi(tok[5]); if (nobj<0||nobj>MAXOBJ) return 0;
    int pos = 6;
    static RT o[MAXOBJ+1];
    int is_conv = !strcmp(op,"to16") || !strcmp(op,"to32");
    /* the source of a conversion has the other width */
    static pixman_region16_t s16; static pixman_region32_t s32;
    for (int i=0;i<nobj;i++) {
        if (is_conv && i==1) { int ok = !strcmp(op,"to16") ? deser_32(tok,&pos,nt,&s32) : deser_16(tok,&pos,nt,&s16); if(!ok) return 0; }
        else if (!SUF(deser)(tok,&pos,nt,&o[i])) return 0;
    }
    static char before[MAXOBJ][1<<12];
    for (int i=0;i<nobj;i++) { before[i][0]=0; if (!(is_conv&&i==1)) SUF(ser)(before[i],sizeof before[i],&o[i]); }
    int d=-1,a=-1,b=-1; int ret=-1; int isvoid=0;
    #define NEED(n) do{ if (pos+(n)>nt) return 0; }while(0)
    #define IDX(v) do{ NEED(1); v=atoi(tok[pos++]); if (v<0||v>=nobj) return 0; }while(0)
    af_arm(tok[2], atol(tok[3]));
    if (!strcmp(op,"union")) { IDX(d);IDX(a);IDX(b); AF_CALL(ret=P(_union)(&o[d],&o[a],&o[b])); }
    else if (!strcmp(op,"intersect")) { IDX(d);IDX(a);IDX(b); AF_CALL(ret=P(_intersect)(&o[d],&o[a],&o[b])); }
    else if (!strcmp(op,"subtract")) { IDX(d);IDX(a);IDX(b); AF_CALL(ret=P(_subtract)(&o[d],&o[a],&o[b])); }
    else if (!strcmp(op,"inverse")) { IDX(d);IDX(a); NEED(4); BT bx={atoi(tok[pos]),atoi(tok[pos+1]),atoi(tok[pos+2]),atoi(tok[pos+3])}; pos+=4; AF_CALL(ret=P(_inverse)(&o[d],&o[a],&bx)); }
    else if (!strcmp(op,"union_rect")) { IDX(d);IDX(a); NEED(4); int x=atoi(tok[pos]),y=atoi(tok[pos+1]); unsigned w=strtoul(tok[pos+2],0,10),h=strtoul(tok[pos+3],0,10); pos+=4; AF_CALL(ret=P(_union_rect)(&o[d],&o[a],x,y,w,h)); }
    else if (!strcmp(op,"intersect_rect")) { IDX(d);IDX(a); NEED(4); int x=atoi(tok[pos]),y=atoi(tok[pos+1]); unsigned w=strtoul(tok[pos+2],0,10),h=strtoul(tok[pos+3],0,10); pos+=4; AF_CALL(ret=P(_intersect_rect)(&o[d],&o[a],x,y,w,h)); }
    else if (!strcmp(op,"copy")) { IDX(d);IDX(a); AF_CALL(ret=P(_copy)(&o[d],&o[a])); }
    else if (!strcmp(op,"translate")) { IDX(d); NEED(2); int dx=atoi(tok[pos]),dy=atoi(tok[pos+1]); pos+=2; isvoid=1; AF_CALL(P(_translate)(&o[d],dx,dy)); }
    else if (!strcmp(op,"fini")) { IDX(d); isvoid=1; AF_CALL(P(_fini)(&o[d])); P(_init)(&o[d]); }
    else if (!strcmp(op,"init_rects")) {
        NEED(1); int m=atoi(tok[pos++]); NEED(4*m); if (nobj>=MAXOBJ) return 0;
        BT *bx = __real_malloc(sizeof(BT)*(m>0?m:1));
        for (int i=0;i<m;i++){ bx[i].x1=atoi(tok[pos]); bx[i].y1=atoi(tok[pos+1]); bx[i].x2=atoi(tok[pos+2]); bx[i].y2=atoi(tok[pos+3]); pos+=4; }
        d=nobj++; before[d][0]=0;
        AF_CALL(ret=P(_init_rects)(&o[d],bx,m));
        __real_free(bx);
    }
    else if (!strcmp(op,"from_image")) {
        NEED(2); int w=atoi(tok[pos++]), h=atoi(tok[pos++]); NEED(h); if (nobj>=MAXOBJ) return 0;
        int stride=((w+31)/32)*4; uint32_t *bits=__real_calloc((size_t)stride*(h>0?h:1)+4,1);
        for (int y=0;y<h;y++){ const char *row=tok[pos++]; if (row[0]=='-') continue; for (int x=0;x<w && row[x];x++) if (row[x]=='1') bits[y*(stride/4)+(x>>5)] |= (1u<<(x&31)); }
        pixman_image_t *img=pixman_image_create_bits(PIXMAN_a1,w,h,bits,stride);
        d=nobj++; before[d][0]=0; isvoid=1;
        AF_CALL(P(_init_from_image)(&o[d],img));
        pixman_image_unref(img); __real_free(bits);
    }
    else if (!strcmp(op,"to16") && BITS==16) { IDX(d);IDX(a); if(a!=1||d!=0) return 0; AF_CALL(ret=pixman_region16_copy_from_region32((pixman_region16_t*)&o[0],&s32)); }
    else if (!strcmp(op,"to32") && BITS==32) { IDX(d);IDX(a); if(a!=1||d!=0) return 0; AF_CALL(ret=pixman_region32_copy_from_region16((pixman_region32_t*)&o[0],&s16)); }
    else { af_disarm(); return 0; }
    if (pos!=nt) return 0;
    long req=af_req; int live=af_nlive;
    /* ---- reply ---- */
    int p = snprintf(out,cap,"%s ", isvoid?"v":(ret?"1":"0"));
    p += SUF(ser)(out+p,cap-p,&o[d]);
    /* ---- oracles (property statement, independent of the model) ---- */
    int broken = SUF(kind)(&o[d])=='B';
    int q=0; orc[0]=0;
    #define ORC(...) do{ if ((size_t)q+200<ocap) q+=snprintf(orc+q,ocap-q,__VA_ARGS__); }while(0)
    if (!isvoid && ret==0 && !is_conv && !SUF(is_broken)(&o[d])) ORC("|returned FALSE but the result is not the broken region");
    if (!isvoid && ret==0 && is_conv && !SUF(is_broken)(&o[d]) && strcmp(before[d], out+2)) ORC("|conversion returned FALSE, result neither broken nor unchanged");
    if (!broken && !P(_selfcheck)(&o[d])) ORC("|result fails selfcheck");
    for (int i=0;i<nobj;i++) if (i!=d && before[i][0] && !(is_conv&&i==1)) { static char now[1<<12]; SUF(ser)(now,sizeof now,&o[i]); if (strcmp(now,before[i])) ORC("|operand %d was modified",i); }
    /* later operations: propagate / still work */
    {
        RT t, other; BT ob={-5,-5,40,40}; P(_init)(&t); P(_init_with_extents)(&other,&ob);
        if (broken) {
            if (P(_n_rects)(&o[d])!=0) ORC("|broken region reports rectangles");
            if (P(_not_empty)(&o[d])) ORC("|broken region is not_empty");
            if (P(_union)(&t,&o[d],&other) || SUF(kind)(&t)!='B') ORC("|union does not propagate a broken operand");
            P(_fini)(&t); P(_init)(&t);
            if (P(_intersect)(&t,&other,&o[d]) || SUF(kind)(&t)!='B') ORC("|intersect does not propagate a broken operand");
            P(_fini)(&t); P(_init)(&t);
            if (P(_subtract)(&t,&other,&o[d]) || SUF(kind)(&t)!='B') ORC("|subtract does not propagate a broken subtrahend");
            P(_fini)(&t); P(_init)(&t);
            if (P(_inverse)(&t,&o[d],&ob) || SUF(kind)(&t)!='B') ORC("|inverse does not propagate a broken operand");
            P(_fini)(&t); P(_init)(&t);
            P(_copy)(&t,&o[d]); if (SUF(kind)(&t)!='B') ORC("|copy of a broken region is not broken");
            P(_translate)(&t, 7, 9); if (SUF(kind)(&t)!='B') ORC("|translate un-breaks a broken region");
            P(_translate)(&t, BITS==16?0x40000000:0x7fffffff, BITS==16?0x40000000:0x7fffffff); if (SUF(kind)(&t)!='B') ORC("|translate out of range un-breaks a broken region");
        } else {
            if (!P(_copy)(&t,&o[d]) || !P(_equal)(&t,&o[d])) ORC("|copy of the result fails or differs");
            if (!P(_union)(&t,&t,&other)) ORC("|union with the result fails without allocation failure");
        }
        P(_fini)(&t); P(_fini)(&other);
    }
    for (int i=0;i<nobj;i++) if (!(is_conv&&i==1)) P(_fini)(&o[i]);
    if (is_conv) { if (!strcmp(op,"to16")) pixman_region32_fini(&s32); else pixman_region_fini(&s16); }
    if (af_nlive!=0) ORC("|%d block(s) still live after fini of every region (leak)", af_nlive);
    if (af_bad) ORC("|free/realloc of a block that is not live (%d)", af_bad);
    snprintf(out+p,cap-p," ; req=%ld live=%d bad=%d fin=%d", req, live, af_bad?1:0, af_nlive);
    return 1;
}
#undef NEED
#undef IDX

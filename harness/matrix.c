/* Correspondence + spec-oracle harness for the matrix domain (C11).
 *   matrix gen  <seed> <n> <ops_out> <impl_out> <oracle_out>
 *   matrix exec <ops_in> <impl_out> [<oracle_out>]
 * Every request is one text line; the implementation's observable result is one line of <impl_out>.
 * Requests are executed in a forked child (one child per batch; when the child dies in abort() or on
 * a signal the parent records "ABORT"/"SIGNAL n" for that request and forks a new child for the
 * rest), so a failed assert is an observable and not the end of the run.
 * The oracle is exact integer arithmetic in __int128 (independent of the Lean model).
 * Requests named f_* / invert are the floating point entry points: oracle only (not modelled). */
#ifdef HAVE_CONFIG_H
#include <config.h>
#endif
#include <stdio.h>
#include <stdlib.h>
#include <string.h>
#include <signal.h>
#include <unistd.h>
#include <fcntl.h>
#include <stdarg.h>
#include <math.h>
#include <sys/mman.h>
#include <sys/wait.h>
#include "pixman-private.h"
#include "rng.h"

typedef __int128 i128;
typedef pixman_transform_t T;

#ifdef HAVE_WB
uint64_t wb_udiv (uint64_t hi, uint64_t lo, uint64_t div, uint64_t *rhi);
int64_t wb_sdiv (int64_t hi, uint64_t lo, int64_t div, int64_t *rhi);
void wb_to128 (int64_t hi, int64_t lo, int64_t *rhi, int64_t *rlo, int scalebits);
int32_t wb_finv (int32_t x);
#endif

/* ------------------------------------------------------------------ small helpers */
static i128 iabs (i128 x) { return x < 0 ? -x : x; }
static i128 fdiv (i128 a, i128 b) { i128 q = a / b, r = a % b; if (r != 0 && ((r < 0) != (b < 0))) q--; return q; }
static void pr128 (FILE *f, i128 v) { char b[48]; int n = 0; int neg = v < 0; unsigned __int128 u = neg ? -(unsigned __int128) v : (unsigned __int128) v;
    if (!u) b[n++] = '0'; while (u) { b[n++] = '0' + (int) (u % 10); u /= 10; } if (neg) fputc ('-', f); while (n) fputc (b[--n], f); }
#define I32MIN ((i128) INT32_MIN)
#define I32MAX ((i128) INT32_MAX)
#define I64MIN ((i128) INT64_MIN)
#define I64MAX ((i128) INT64_MAX)

static FILE *g_orc; static long g_line; static const char *g_req;
struct shared { volatile long cur; volatile int sig; int nstat; const char *stat_name[96]; long stat_cnt[96]; };
static struct shared *sh;
static void stat (const char *name) { for (int i = 0; i < sh->nstat; i++) if (sh->stat_name[i] == name || !strcmp (sh->stat_name[i], name)) { sh->stat_cnt[i]++; return; }
    if (sh->nstat < 96) { sh->stat_name[sh->nstat] = name; sh->stat_cnt[sh->nstat++] = 1; } }
static void orc (const char *cls, const char *fmt, ...) __attribute__ ((format (printf, 2, 3)));
static void orc (const char *cls, const char *fmt, ...)
{
    if (!g_orc) return;
    va_list ap; va_start (ap, fmt);
    fprintf (g_orc, "ORACLE %ld %s ", g_line, cls); vfprintf (g_orc, fmt, ap); fprintf (g_orc, "\n");
    va_end (ap);
}

/* candidates for "n = X*scale/W rounded": returns lowest and highest admissible integer.
 * exact regime (within==0): |n - q| <= 1/2; otherwise |n - q| <= 1.  W != 0. */
static void admissible (i128 num, i128 W, int within, i128 *lo, i128 *hi)
{
    if (W < 0) { W = -W; num = -num; }
    i128 qf = fdiv (num, W), r = num - qf * W;
    if (!within) {
        if (2 * r < W) *lo = *hi = qf; else if (2 * r > W) *lo = *hi = qf + 1; else { *lo = qf; *hi = qf + 1; }
    } else {
        *lo = r == 0 ? qf - 1 : qf; *hi = qf + 1;
    }
}

/* ------------------------------------------------------------------ parsing */
static int split (char *line, char **tok, int max) { int n = 0; char *s = strtok (line, " \t\r\n"); while (s && n < max) { tok[n++] = s; s = strtok (NULL, " \t\r\n"); } return n; }
static char **g_tok; static int g_nt, g_pos, g_bad;
static int64_t geti (void) { if (g_pos >= g_nt) { g_bad = 1; return 0; } char *e; long long v = strtoll (g_tok[g_pos++], &e, 10); if (*e) g_bad = 1; return v; }
static uint64_t getu (void) { if (g_pos >= g_nt) { g_bad = 1; return 0; } char *e; unsigned long long v = strtoull (g_tok[g_pos++], &e, 10); if (*e) g_bad = 1; return v; }
static void getT (T *t) { for (int i = 0; i < 9; i++) t->matrix[i / 3][i % 3] = (pixman_fixed_t) geti (); }
static int getOptT (T *t) { if (g_pos >= g_nt) { g_bad = 1; return 0; } char *s = g_tok[g_pos++]; if (!strcmp (s, "-")) return 0; if (strcmp (s, "+")) { g_bad = 1; return 0; } getT (t); return 1; }
static double getd (void) { uint64_t u = getu (); double d; memcpy (&d, &u, 8); return d; }
static void prT (FILE *f, const T *t) { for (int i = 0; i < 9; i++) fprintf (f, "%s%d", i ? " " : "", t->matrix[i / 3][i % 3]); }
static void prOptT (FILE *f, int have, const T *t) { if (!have) fprintf (f, "-"); else { fprintf (f, "+ "); prT (f, t); } }
static void prd (FILE *f, double d) { uint64_t u; memcpy (&u, &d, 8); fprintf (f, "%llu", (unsigned long long) u); }

/* ------------------------------------------------------------------ exact references */
static void rowsum (const T *t, const i128 v[3], i128 out[3])
{ for (int i = 0; i < 3; i++) out[i] = (i128) t->matrix[i][0] * v[0] + (i128) t->matrix[i][1] * v[1] + (i128) t->matrix[i][2] * v[2]; }

/* expected product with per-term rounding; returns 0 when an entry leaves int32 */
static int ref_mul (const i128 l[9], const i128 r[9], i128 d[9])
{
    int ok = 1;
    for (int y = 0; y < 3; y++) for (int x = 0; x < 3; x++) {
        i128 v = 0; for (int o = 0; o < 3; o++) v += fdiv (l[y * 3 + o] * r[o * 3 + x] + 32768, 65536);
        d[y * 3 + x] = v; if (v > I32MAX || v < I32MIN) ok = 0; }
    return ok;
}
static void T128 (const T *t, i128 o[9]) { for (int i = 0; i < 9; i++) o[i] = t->matrix[i / 3][i % 3]; }
static int eqT128 (const T *t, const i128 o[9]) { for (int i = 0; i < 9; i++) if (o[i] != t->matrix[i / 3][i % 3]) return 0; return 1; }
static int rep9 (const i128 o[9]) { for (int i = 0; i < 9; i++) if (o[i] > I32MAX || o[i] < I32MIN) return 0; return 1; }

/* oracle of the projective point entry points; range [rlo,rhi] is the result type */
static void oracle_point (const char *op, const T *t, const i128 v[3], int ret, const i128 out[3], i128 rlo, i128 rhi)
{
    i128 s[3]; rowsum (t, v, s);
    i128 W = s[2];
    if (W == 0) { stat ("point:w=0"); if (ret) orc ("point-true-w0", "%s returned TRUE although w = 0", op); return; }
    int within = iabs (W) >= ((i128) 1 << 48);
    int affine = (W == ((i128) 1 << 32));
    stat (affine ? "point:affine" : within ? "point:reduced-divisor(|w|>=65536)" : "point:small-divisor");
    int unrep = 0, bad = 0;
    for (int k = 0; k < 2; k++) {
        i128 lo, hi; admissible (s[k] * 65536, W, within, &lo, &hi);
        if (lo < rlo || hi > rhi) unrep = 1;
        if (ret && (out[k] < lo || out[k] > hi)) bad = 1;
    }
    if (ret) {
        stat ("point:TRUE");
        if (bad) orc (within ? "point-off-by-more-than-one" : "point-not-nearest", "%s result is not the %s of the exact quotient (|w|%s65536)", op, within ? "exact quotient +-1" : "nearest 1/65536", within ? ">=" : "<");
        if (out[2] != 65536) orc ("point-z", "%s returned z != 1.0", op);
    } else {
        stat ("point:FALSE");
        if (!unrep) orc ("point-spurious-false", "%s returned FALSE although the rounded result is representable", op);
    }
}
/* 3d (no division): each of three coordinates is nearest of sum/65536 */
static void oracle_3d (const char *op, const T *t, const i128 v[3], int ret, const i128 out[3], i128 rlo, i128 rhi, int ncoord, int affine_const)
{
    i128 s[3];
    if (affine_const) { for (int i = 0; i < 2; i++) s[i] = (i128) t->matrix[i][0] * v[0] + (i128) t->matrix[i][1] * v[1] + (i128) t->matrix[i][2] * 65536; s[2] = (i128) 1 << 32; }
    else rowsum (t, v, s);
    int unrep = 0, bad = 0;
    for (int k = 0; k < ncoord; k++) {
        i128 lo, hi; admissible (s[k], 65536, 0, &lo, &hi);
        if (lo < rlo || hi > rhi) unrep = 1;
        if (ret && (out[k] < lo || out[k] > hi)) bad = 1;
    }
    if (ret) { if (bad) orc ("3d-not-nearest", "%s result is not the nearest 1/65536 of the exact product", op); }
    else if (!unrep) orc ("3d-spurious-false", "%s returned FALSE although the rounded result is representable", op);
    stat (ret ? "3d:TRUE" : "3d:FALSE");
}

/* forward := tf*forward, reverse := reverse*tr with exact tf,tr (entries may leave int32 => FALSE expected) */
static const char *g_pair_shape = "";
static void oracle_pair (const char *op, int hf, const T *f0, const T *f1, int hr, const T *r0, const T *r1, int ret,
                         const i128 tf[9], int ntr, i128 tr[][9])
{
    i128 a[9], e[9]; int fok = 1, rok = 1, rmatch = 0;
    if (hf) { T128 (f0, a); fok = rep9 (tf) && ref_mul (tf, a, e); if (ret && !(fok && eqT128 (f1, e))) { orc (fok ? "pair-forward-value" : "pair-true-on-overflow", "%s returned TRUE but forward is not (t x forward) with per-term rounding%s [%s]", op, fok ? "" : " (an operand or the result is not representable)", g_pair_shape); return; } }
    if (hr) {
        T128 (r0, a); rok = 0;
        for (int k = 0; k < ntr; k++) { int ok = rep9 (tr[k]) && ref_mul (a, tr[k], e); if (ok) { rok = 1; if (eqT128 (r1, e)) rmatch = 1; } }
        if (ret && !rmatch) { orc (rok ? "pair-reverse-value" : "pair-true-on-overflow", "%s returned TRUE but reverse is not (reverse x t^-1) with per-term rounding%s [%s]", op, rok ? "" : " (the inverse operand or the result is not representable)", g_pair_shape); return; }
    }
    /* FALSE is also justified when the operand matrix itself is not representable (rotate: both matrices contain -sin) */
    if (!ret && fok && rok && rep9 (tf)) orc ("pair-spurious-false", "%s returned FALSE although every result is representable", op);
    stat (ret ? "pair:TRUE" : "pair:FALSE");
}

/* ------------------------------------------------------------------ floating point oracles */
static long double ldabs (long double x) { return x < 0 ? -x : x; }
static i128 gcd128 (i128 a, i128 b) { a = iabs (a); b = iabs (b); while (b) { i128 t = a % b; a = b; b = t; } return a; }
/* the rational num/den (den != 0) in canonical form "n/d": reduced, d > 0 (the form the Lean driver prints a `Rat` in) */
static void prq (FILE *f, i128 num, i128 den) { if (den < 0) { num = -num; den = -den; } i128 g = gcd128 (num, den); if (g > 1) { num /= g; den /= g; } if (num == 0) den = 1; pr128 (f, num); fputc ('/', f); pr128 (f, den); }
static i128 cdiv (i128 a, i128 b) { return -fdiv (-a, b); }

/* is the integer v (any power-of-two scaling of a real number) exactly representable as a double? */
static int dbl_exact (i128 v) { if (v == 0) return 1; unsigned __int128 u = v < 0 ? -(unsigned __int128) v : (unsigned __int128) v; while (!(u & 1)) u >>= 1; return u < ((unsigned __int128) 1 << 53); }

/* pixman_transform_invert against exact rational arithmetic.
 *   a[] = the 16.16 entries.  Exact cofactors c[k] (units 2^-32), determinant det (units 2^-48) in __int128;
 *   exact inverse entry k in 16.16 units: x_k = c_k * 2^32 / det; its nearest 16.16 value q_k = floor (x_k + 1/2).
 * The text written after " | " on the implementation line is the verdict of EXACT arithmetic
 *   "0 S" singular | "0 O" an entry of the exact inverse outside [-32767, 32767] | "1 q0 .. q8"
 * which the Lean rational model (Model/MatrixQ.lean) must reproduce literally (checked by checks/C11.py).
 * The LIBRARY (double arithmetic) is judged against the same exact values within the a-posteriori bound that IEEE
 * rounding of its own operation sequence allows (u = 2^-53; SP = |m m| + |m m| of a 2x2 minor, SD = sum |m_i0| SP_i):
 *   |det_fl - det| <= 6 u SD =: kappa |det|;   judged only when kappa < 1/4 (else det_fl may vanish or change sign);
 *   |x_fl - x_k|  <= E_k := (4/3) (4.1 u SC_k + kappa |c_k|) 2^32 / |det|  + 2^-21   (last term: fl (d * 65536 + 0.5))
 *   TRUE  required when every |x_k| <= 32767 * 65536 - E_k, FALSE required when some |x_k| > 32767 * 65536 + E_k,
 *   and a TRUE result must have r_k in [floor (x_k - E_k + 1/2), floor (x_k + E_k + 1/2)].
 * Exactly singular input: FALSE is REQUIRED when every intermediate of the determinant is exactly representable in
 * double (then det_fl == 0 exactly); otherwise the outcome is counted, not judged. */
static const int inv_ta[3] = { 2, 2, 1 }, inv_tb[3] = { 1, 0, 0 };
static void oracle_invert (const T *src, int ret, const T *dst, FILE *fr)
{
    i128 a[9]; T128 (src, a);
#define A(r, c) a[(r) * 3 + (c)]
    /* determinant exactly as the code expands it (first column), with the exactness of every intermediate */
    i128 det = 0, SD = 0; int detexact = 1;
    for (int i = 0; i < 3; i++) {
        int ai = inv_ta[i], bi = inv_tb[i];
        i128 p1 = A (ai, 2) * A (bi, 1), p2 = A (ai, 1) * A (bi, 2), p = p1 - p2, t = A (i, 0) * p;
        if (!dbl_exact (p1) || !dbl_exact (p2) || !dbl_exact (p) || !dbl_exact (t)) detexact = 0;
        if (i == 1) t = -t;
        det += t; if (!dbl_exact (det)) detexact = 0;
        SD += iabs (A (i, 0)) * (iabs (p1) + iabs (p2));
    }
    /* cofactors: entry (j,i) of the result */
    i128 c[9], SC[9];
    for (int j = 0; j < 3; j++) for (int i = 0; i < 3; i++) {
        int ai = inv_ta[i], aj = inv_ta[j], bi = inv_tb[i], bj = inv_tb[j];
        i128 p1 = A (ai, aj) * A (bi, bj), p2 = A (ai, bj) * A (bi, aj), p = p1 - p2;
        if ((i + j) & 1) p = -p;
        c[j * 3 + i] = p; SC[j * 3 + i] = iabs (p1) + iabs (p2);
    }
#undef A
    if (det == 0) {
        fprintf (fr, " | 0 S\n");
        stat ("invert:exactly singular"); stat (ret ? "invert:exactly singular -> TRUE" : "invert:exactly singular -> FALSE");
        if (detexact) { stat ("invert:exactly singular, determinant exact in double");
            if (ret) orc ("invert-singular-true", "invert returned TRUE for an exactly singular matrix whose determinant is computed exactly in double [exact double determinant]"); }
        else if (ret) { stat ("invert:exactly singular, determinant inexact in double -> TRUE"); orc ("invert-singular-true-inexact", "invert returned TRUE for an exactly singular 16.16 matrix [inexact double determinant]"); }
        return;
    }
    /* exact verdict */
    i128 lim = (i128) 32767 * 65536, ad = iabs (det), q[9]; int over = 0;
    for (int k = 0; k < 9; k++) {
        i128 num = c[k] * ((i128) 1 << 32); if (det < 0) num = -num;          /* x_k = num / ad */
        if (iabs (num) > lim * ad) over = 1;
        q[k] = fdiv (2 * num + ad, 2 * ad);
    }
    if (over) fprintf (fr, " | 0 O\n"); else { fprintf (fr, " | 1"); for (int k = 0; k < 9; k++) { fputc (' ', fr); pr128 (fr, q[k]); } fprintf (fr, "\n"); }
    /* the library within the double rounding bound */
    const long double u = 1.0L / 9007199254740992.0L;
    long double kappa = 6.0L * u * (long double) SD / (long double) ad * 1.001L;
    if (!(kappa < 0.25L)) { stat ("invert:regular, determinant not resolved by double (kappa >= 1/4; counted, not judged)"); stat (ret ? "invert:kappa>=1/4 -> TRUE" : "invert:kappa>=1/4 -> FALSE"); return; }
    int must_true = 1, must_false = 0, bad = -1; long double worstE = 0; i128 maxdev = 0;
    long double x[9], E[9];
    for (int k = 0; k < 9; k++) {
        i128 num = c[k] * ((i128) 1 << 32); if (det < 0) num = -num;
        x[k] = (long double) num / (long double) ad;
        E[k] = (4.0L / 3.0L) * (4.1L * u * (long double) SC[k] + kappa * (long double) iabs (c[k])) * 4294967296.0L / (long double) ad * 1.001L + 1.0L / 2097152.0L + ldabs (x[k]) * 1e-18L;
        if (E[k] > worstE) worstE = E[k];
        if (ldabs (x[k]) > (long double) lim - E[k]) must_true = 0;
        if (ldabs (x[k]) > (long double) lim + E[k]) must_false = 1;
    }
    stat (worstE < 0.001L ? "invert:bound E < 0.001 unit" : worstE < 0.5L ? "invert:bound E in [0.001, 0.5) unit" : worstE < 64.0L ? "invert:bound E in [0.5, 64) units" : "invert:bound E >= 64 units");
    if (!ret) { stat ("invert:regular -> FALSE"); if (must_true) orc ("invert-spurious-false", "invert returned FALSE although every entry of the exact inverse is inside [-32767, 32767] by more than the double rounding bound"); return; }
    stat ("invert:regular -> TRUE");
    if (must_false) { orc ("invert-true-on-overflow", "invert returned TRUE although an entry of the exact inverse exceeds 32767.0 by more than the double rounding bound"); return; }
    i128 d[9]; T128 (dst, d);
    for (int k = 0; k < 9; k++) {
        /* admissible interval in exact integer arithmetic where E is small (the usual case), long double otherwise */
        long double lo = floorl (x[k] - E[k] + 0.5L), hi = floorl (x[k] + E[k] + 0.5L);
        if (E[k] < 0.25L) { i128 qq = q[k]; lo = (long double) qq; hi = (long double) qq;
            /* the exact rounding may move by one only if x_k + 1/2 is within E of an integer */
            long double fr2 = x[k] + 0.5L - floorl (x[k] + 0.5L); if (fr2 < E[k] * 1.01L + 1e-9L) lo -= 1; if (1.0L - fr2 < E[k] * 1.01L + 1e-9L) hi += 1; }
        if ((long double) d[k] < lo || (long double) d[k] > hi) { if (bad < 0) bad = k; }
        i128 dev = iabs (d[k] - q[k]); if (dev > maxdev) maxdev = dev;
    }
    stat (maxdev == 0 ? "invert:TRUE equal to the exact rounding" : maxdev == 1 ? "invert:TRUE within 1 unit of the exact rounding" : "invert:TRUE further than 1 unit from the exact rounding (inside the bound)");
    if (bad >= 0) orc ("invert-inexact", "invert: entry [%d][%d] differs from the exact inverse by more than the double rounding bound allows", bad / 3, bad % 3);
    /* A * dst ~ I for well-conditioned input, to the 16.16 resolution (the property's wording) */
    int well = 1; for (int k = 0; k < 9; k++) if (ldabs (x[k]) > 30000.0L * 65536.0L) well = 0;
    if (well && worstE < 0.01L) for (int i = 0; i < 3; i++) for (int j = 0; j < 3; j++) {
        i128 p = 0, na = 0; for (int k = 0; k < 3; k++) { p += a[i * 3 + k] * d[k * 3 + j]; na += iabs (a[i * 3 + k]); }
        i128 err = iabs (p - (i == j ? ((i128) 1 << 32) : 0));
        if (err * 64 > na * 33) { orc ("invert-inexact", "src x invert(src) differs from the identity by more than the 16.16 resolution at [%d][%d]", i, j); return; }
    }
}

/* pixman_f_transform_invert of a 16.16 matrix seen as doubles, against exact rationals: value of entry k = c_k 2^16 / det.
 * Same error analysis as oracle_invert, relative form: |d_fl - d_k| <= (4/3)(4.1 u SC_k + kappa |c_k|) 2^16 / |det|. */
static void oracle_f_invert (const T *src, int ret, const pixman_f_transform_t *fi, FILE *fr)
{
    i128 a[9]; T128 (src, a);
#define A(r, c) a[(r) * 3 + (c)]
    i128 det = 0, SD = 0; int detexact = 1;
    for (int i = 0; i < 3; i++) { int ai = inv_ta[i], bi = inv_tb[i];
        i128 p1 = A (ai, 2) * A (bi, 1), p2 = A (ai, 1) * A (bi, 2), p = p1 - p2, t = A (i, 0) * p;
        if (!dbl_exact (p1) || !dbl_exact (p2) || !dbl_exact (p) || !dbl_exact (t)) detexact = 0;
        if (i == 1) t = -t;
        det += t; if (!dbl_exact (det)) detexact = 0; SD += iabs (A (i, 0)) * (iabs (p1) + iabs (p2)); }
    i128 c[9], SC[9];
    for (int j = 0; j < 3; j++) for (int i = 0; i < 3; i++) { int ai = inv_ta[i], aj = inv_ta[j], bi = inv_tb[i], bj = inv_tb[j];
        i128 p1 = A (ai, aj) * A (bi, bj), p2 = A (ai, bj) * A (bi, aj), p = p1 - p2; if ((i + j) & 1) p = -p; c[j * 3 + i] = p; SC[j * 3 + i] = iabs (p1) + iabs (p2); }
#undef A
    if (det == 0) { fprintf (fr, " | 0 S\n"); stat (ret ? "f_invert:exactly singular -> TRUE" : "f_invert:exactly singular -> FALSE");
        if (detexact && ret) orc ("f-invert-singular-true", "f_transform_invert returned TRUE for an exactly singular matrix whose determinant is computed exactly in double [exact double determinant]");
        return; }
    fprintf (fr, " | 1"); for (int k = 0; k < 9; k++) { fputc (' ', fr); prq (fr, c[k] * 65536, det); } fprintf (fr, "\n");
    const long double u = 1.0L / 9007199254740992.0L; i128 ad = iabs (det);
    long double kappa = 6.0L * u * (long double) SD / (long double) ad * 1.001L;
    if (detexact && !ret) orc ("f-invert-spurious-false", "f_transform_invert returned FALSE for a regular matrix whose determinant is computed exactly in double");
    if (!(kappa < 0.25L)) { stat ("f_invert:regular, kappa >= 1/4 (counted, not judged)"); return; }
    if (!ret) { orc ("f-invert-spurious-false", "f_transform_invert returned FALSE although the determinant is resolved by double arithmetic (kappa < 1/4)"); return; }
    long double worst = 0;
    for (int k = 0; k < 9; k++) { long double x = (long double) (det < 0 ? -c[k] : c[k]) * 65536.0L / (long double) ad;
        long double E = (4.0L / 3.0L) * (4.1L * u * (long double) SC[k] + kappa * (long double) iabs (c[k])) * 65536.0L / (long double) ad * 1.001L + ldabs (x) * 1e-18L;
        long double dev = ldabs ((long double) fi->m[k / 3][k % 3] - x);
        if (dev > E) { orc ("f-invert-inexact", "f_transform_invert: entry [%d][%d] differs from the exact inverse by more than the double rounding bound", k / 3, k % 3); return; }
        if (x != 0 && dev / ldabs (x) > worst) worst = dev / ldabs (x); }
    stat (worst <= 2.0L * u ? "f_invert:TRUE within 2 ulp of the exact inverse" : worst <= 1024.0L * u ? "f_invert:TRUE within 2^10 ulp" : "f_invert:TRUE further (inside the bound)");
}

/* ------------------------------------------------------------------ exact rational matrices (f_mul, f_scale, f_rotate, f_translate) */
typedef struct { i128 n, d; } Q;                       /* d > 0, reduced */
static Q qmk (i128 n, i128 d) { Q q; if (d < 0) { n = -n; d = -d; } i128 g = gcd128 (n, d); if (g > 1) { n /= g; d /= g; } if (n == 0) d = 1; q.n = n; q.d = d; return q; }
static Q qmul (Q a, Q b) { Q x = qmk (a.n, b.d), y = qmk (b.n, a.d); return qmk (x.n * y.n, x.d * y.d); }
static Q qadd (Q a, Q b) { if (a.n == 0) return b; if (b.n == 0) return a; i128 g = gcd128 (a.d, b.d); return qmk (a.n * (b.d / g) + b.n * (a.d / g), a.d / g * b.d); }
static long double qld (Q a) { return (long double) a.n / (long double) a.d; }
static void qfromT (const T *t, Q o[9]) { for (int i = 0; i < 9; i++) o[i] = qmk (t->matrix[i / 3][i % 3], 65536); }
/* exact product, printed; the library's doubles lib[] (NULL: not judged) must be within 4u * sum |terms| of it:
 * every entry is at most three products and two additions of doubles (for scale's reverse one of the factors is itself a rounded reciprocal) */
static int qmulprint (FILE *fr, const Q l[9], const Q r[9], const pixman_f_transform_t *lib)
{
    int bad = 0;
    for (int i = 0; i < 3; i++) for (int j = 0; j < 3; j++) { Q s = qmk (0, 1); long double mag = 0;
        for (int k = 0; k < 3; k++) { Q t = qmul (l[i * 3 + k], r[k * 3 + j]); s = qadd (s, t); mag += ldabs (qld (t)); }
        fputc (' ', fr); prq (fr, s.n, s.d);
        if (lib && ldabs ((long double) lib->m[i][j] - qld (s)) > 4.0L * mag / 9007199254740992.0L * 1.001L) bad = 1; }
    return bad;
}

/* ------------------------------------------------------------------ one request */
static void exec_line (char *line, FILE *fr)
{
    static char *tok[128]; static char copy[4096];
    strncpy (copy, line, sizeof copy - 1); copy[sizeof copy - 1] = 0; { char *nl = strchr (copy, '\n'); if (nl) *nl = 0; }
    g_req = copy;
    g_nt = split (line, tok, 128); g_tok = tok; g_pos = 1; g_bad = 0;
    if (g_nt < 1) { fprintf (fr, "bad-op\n"); return; }
    const char *op = tok[0];
    T t, l, r; i128 v[3], out[3];
    if (!strcmp (op, "point") || !strcmp (op, "point3d")) {
        pixman_vector_t pv; getT (&t); for (int i = 0; i < 3; i++) { pv.vector[i] = (pixman_fixed_t) geti (); v[i] = pv.vector[i]; }
        if (g_bad) goto bad;
        int p3 = op[5] == '3';
        int ret = p3 ? pixman_transform_point_3d (&t, &pv) : pixman_transform_point (&t, &pv);
        fprintf (fr, "%d %d %d %d\n", ret, pv.vector[0], pv.vector[1], pv.vector[2]);
        for (int i = 0; i < 3; i++) out[i] = pv.vector[i];
        if (p3) oracle_3d (op, &t, v, ret, out, I32MIN, I32MAX, 3, 0); else oracle_point (op, &t, v, ret, out, I32MIN, I32MAX);
        stat (p3 ? "op:point3d" : "op:point");
    } else if (!strcmp (op, "p31") || !strcmp (op, "p31a") || !strcmp (op, "p313d")) {
        pixman_vector_48_16_t a, res; getT (&t); for (int i = 0; i < 3; i++) { a.v[i] = geti (); v[i] = a.v[i]; }
        if (g_bad) goto bad;
        if (!strcmp (op, "p31")) { int ret = pixman_transform_point_31_16 (&t, &a, &res); fprintf (fr, "%d %lld %lld %lld\n", ret, (long long) res.v[0], (long long) res.v[1], (long long) res.v[2]);
            for (int i = 0; i < 3; i++) out[i] = res.v[i]; oracle_point (op, &t, v, ret, out, I64MIN, I64MAX); stat ("op:p31"); }
        else { if (op[3] == 'a') pixman_transform_point_31_16_affine (&t, &a, &res); else pixman_transform_point_31_16_3d (&t, &a, &res);
            fprintf (fr, "%lld %lld %lld\n", (long long) res.v[0], (long long) res.v[1], (long long) res.v[2]);
            for (int i = 0; i < 3; i++) out[i] = res.v[i];
            if (op[3] == 'a') { oracle_3d (op, &t, v, 1, out, I64MIN, I64MAX, 2, 1); if (out[2] != 65536) orc ("point-z", "p31a returned z != 1.0"); stat ("op:p31a"); }
            else { oracle_3d (op, &t, v, 1, out, I64MIN, I64MAX, 3, 0); stat ("op:p313d"); } }
    } else if (!strcmp (op, "mul")) {
        T d; memset (&d, 0x55, sizeof d); getT (&l); getT (&r); if (g_bad) goto bad;
        int ret = pixman_transform_multiply (&d, &l, &r);
        if (ret) { fprintf (fr, "1 "); prT (fr, &d); fprintf (fr, "\n"); } else fprintf (fr, "0\n");
        i128 a[9], b[9], e[9]; T128 (&l, a); T128 (&r, b); int ok = ref_mul (a, b, e);
        if (ret && !ok) orc ("mul-true-on-overflow", "multiply returned TRUE although an entry is outside int32");
        else if (!ret && ok) orc ("mul-spurious-false", "multiply returned FALSE although every entry is representable");
        else if (ret && !eqT128 (&d, e)) orc ("mul-value", "multiply: an entry is not the sum of the three rounded products");
        if (ok) { /* within 3/2 unit of the exact product */
            for (int y = 0; y < 3; y++) for (int x = 0; x < 3; x++) { i128 s = 0; for (int o = 0; o < 3; o++) s += a[y * 3 + o] * b[o * 3 + x]; if (iabs (e[y * 3 + x] * 65536 - s) > 3 * 32768) orc ("mul-error-bound", "multiply: entry further than 3/2 unit from the exact product"); } }
        stat ("op:mul"); stat (ret ? "mul:TRUE" : "mul:FALSE");
    } else if (!strcmp (op, "init_identity") || !strcmp (op, "init_scale") || !strcmp (op, "init_rotate") || !strcmp (op, "init_translate")) {
        memset (&t, 0x55, sizeof t); int32_t a = 0, b = 0; if (op[5] != 'i') { a = geti (); b = geti (); } if (g_bad) goto bad;
        i128 e[9] = { 65536, 0, 0, 0, 65536, 0, 0, 0, 65536 };
        if (op[5] == 'i') pixman_transform_init_identity (&t);
        else if (op[5] == 's') { pixman_transform_init_scale (&t, a, b); e[0] = a; e[4] = b; }
        else if (op[5] == 'r') { pixman_transform_init_rotate (&t, a, b); e[0] = a; e[1] = -(i128) b; e[3] = b; e[4] = a; }
        else { pixman_transform_init_translate (&t, a, b); e[2] = a; e[5] = b; }
        prT (fr, &t); fprintf (fr, "\n");
        if (!eqT128 (&t, e)) { if (rep9 (e)) orc ("init-value", "%s does not produce the exact matrix", op); else stat ("init_rotate:-sin unrepresentable (void function, cannot report; counted, not judged)"); }
        stat ("op:init");
    } else if (!strcmp (op, "scale") || !strcmp (op, "rotate") || !strcmp (op, "translate")) {
        T f0, r0, f1, r1; int hf = getOptT (&f0), hr = getOptT (&r0); int32_t a = geti (), b = geti (); if (g_bad) goto bad;
        f1 = f0; r1 = r0; int ret;
        i128 tf[9] = { 65536, 0, 0, 0, 65536, 0, 0, 0, 65536 }, tr[4][9]; int ntr = 1;
        for (int k = 0; k < 4; k++) memcpy (tr[k], tf, sizeof tf);
        if (op[0] == 's') {
            ret = pixman_transform_scale (hf ? &f1 : NULL, hr ? &r1 : NULL, a, b);
            if (a == 0 || b == 0) { fprintf (fr, "%d ", ret); prOptT (fr, hf, &f1); fprintf (fr, " "); prOptT (fr, hr, &r1); fprintf (fr, "\n");
                if (ret) orc ("scale-zero", "scale by zero returned TRUE"); stat ("op:scale"); return; }
            tf[0] = a; tf[4] = b;
            /* reciprocal: any 16.16 value within one unit of 2^32/s (the code truncates) */
            i128 ca[2], cb[2]; int na = 0, nb = 0; i128 one = (i128) 1 << 32;
            ca[na++] = fdiv (one, a); if (one % a) ca[na++] = ca[0] + 1;
            cb[nb++] = fdiv (one, b); if (one % b) cb[nb++] = cb[0] + 1;
            ntr = 0; for (int i = 0; i < na; i++) for (int j = 0; j < nb; j++) { memcpy (tr[ntr], tf, sizeof tf); tr[ntr][0] = ca[i]; tr[ntr][4] = cb[j]; ntr++; }
        } else if (op[0] == 'r') {
            ret = pixman_transform_rotate (hf ? &f1 : NULL, hr ? &r1 : NULL, a, b);
            tf[0] = a; tf[1] = -(i128) b; tf[3] = b; tf[4] = a;
            tr[0][0] = a; tr[0][1] = b; tr[0][3] = -(i128) b; tr[0][4] = a;
        } else {
            ret = pixman_transform_translate (hf ? &f1 : NULL, hr ? &r1 : NULL, a, b);
            tf[2] = a; tf[5] = b; tr[0][2] = -(i128) a; tr[0][5] = -(i128) b;
        }
        fprintf (fr, "%d ", ret); prOptT (fr, hf, &f1); fprintf (fr, " "); prOptT (fr, hr, &r1); fprintf (fr, "\n");
        g_pair_shape = "operands representable";
        if (op[0] == 's') { i128 one = (i128) 1 << 32; if (iabs (one / a) > I32MAX + (one / a < 0) || iabs (one / b) > I32MAX + (one / b < 0)) g_pair_shape = "reciprocal 2^32/s outside int32 (s in {1,-1,2})"; }
        else if (a == INT32_MIN || b == INT32_MIN) g_pair_shape = (op[0] == 'r') ? "negation of INT32_MIN (sin)" : "negation of INT32_MIN (tx/ty)";
        oracle_pair (op, hf, &f0, &f1, hr, &r0, &r1, ret, tf, ntr, tr);
        stat (op[0] == 's' ? "op:scale" : op[0] == 'r' ? "op:rotate" : "op:translate");
    } else if (!strcmp (op, "bounds")) {
        pixman_box16_t b, b0; getT (&t); b.x1 = geti (); b.y1 = geti (); b.x2 = geti (); b.y2 = geti (); if (g_bad) goto bad;
        b0 = b; int ret = pixman_transform_bounds (&t, &b);
        fprintf (fr, "%d %d %d %d %d\n", ret, b.x1, b.y1, b.x2, b.y2);
        /* exact corners */
        int cx[4] = { b0.x1, b0.x2, b0.x2, b0.x1 }, cy[4] = { b0.y1, b0.y1, b0.y2, b0.y2 };
        int allin = 1, anyout = 0, w0 = 0, ceilov = 0;
        for (int i = 0; i < 4; i++) {
            i128 cv[3] = { (i128) cx[i] * 65536, (i128) cy[i] * 65536, 65536 }, s[3]; rowsum (&t, cv, s);
            if (s[2] == 0) { w0 = 1; continue; }
            int within = iabs (s[2]) >= ((i128) 1 << 48);
            for (int k = 0; k < 2; k++) {
                i128 lo, hi; admissible (s[k] * 65536, s[2], within, &lo, &hi);   /* corner in 16.16 units, to the resolution */
                i128 bl = (i128) (k ? b.y1 : b.x1) * 65536, bh = (i128) (k ? b.y2 : b.x2) * 65536;
                if (ret && (hi < bl || lo > bh)) allin = 0;
                if (hi > (i128) 32767 * 65536 && lo <= I32MAX) ceilov = 1;
                /* FALSE is justified when a corner (or its ceiling) is not representable */
                if (lo < I32MIN || hi > (i128) 32767 * 65536) anyout = 1;
            }
        }
        if (ret && (w0 || !allin)) orc ("bounds-corner-outside", "bounds returned TRUE with a box that does not contain a transformed corner [%s]", ceilov ? "a corner coordinate lies above 32767.0: pixman_fixed_ceil overflows" : "no ceil overflow");
        if (!ret && !w0 && !anyout) orc ("bounds-spurious-false", "bounds returned FALSE although every corner and its ceiling are representable");
        stat ("op:bounds"); stat (ret ? "bounds:TRUE" : "bounds:FALSE");
    } else if (!strcmp (op, "is_identity") || !strcmp (op, "is_scale") || !strcmp (op, "is_int_translate")) {
        getT (&t); if (g_bad) goto bad;
        int ret = op[3] == 's' ? pixman_transform_is_scale (&t) : op[4] == 'd' ? pixman_transform_is_identity (&t) : pixman_transform_is_int_translate (&t);
        fprintf (fr, "%d\n", ret); stat ("op:is_*");
        { /* spec oracle in exact arithmetic: "within two units"; judged when no int32 difference wraps and no entry is INT32_MIN */
            int64_t e[9]; int judged = 1; for (int i = 0; i < 9; i++) { e[i] = t.matrix[i / 3][i % 3]; if (e[i] == INT32_MIN) judged = 0; }
            if (e[0] - e[4] > INT32_MAX || e[0] - e[4] <= INT32_MIN || e[0] - e[8] > INT32_MAX || e[0] - e[8] <= INT32_MIN) judged = 0;
#define NZ(v) ((v) >= -2 && (v) <= 2)
#define N1(v) ((v) >= 65534 && (v) <= 65538)
#define NI(v) ((((v) % 65536) + 65536) % 65536 <= 2)
            int exp;
            if (op[3] == 's') exp = !NZ (e[0]) && NZ (e[1]) && NZ (e[2]) && NZ (e[3]) && !NZ (e[4]) && NZ (e[5]) && NZ (e[6]) && NZ (e[7]) && !NZ (e[8]);
            else if (op[4] == 'd') exp = llabs (e[0] - e[4]) <= 2 && llabs (e[0] - e[8]) <= 2 && !NZ (e[0]) && NZ (e[1]) && NZ (e[2]) && NZ (e[3]) && NZ (e[5]) && NZ (e[6]) && NZ (e[7]);
            else exp = N1 (e[0]) && NZ (e[1]) && NI (e[2]) && NZ (e[3]) && N1 (e[4]) && NI (e[5]) && NZ (e[6]) && NZ (e[7]) && N1 (e[8]);
            if (!judged) stat ("is_*:an entry is INT32_MIN or a difference wraps (not judged)");
            else { stat (exp ? "is_*:expected TRUE" : "is_*:expected FALSE"); if (exp != (ret != 0)) orc ("is-spec", "%s differs from the two-unit tolerance specification", op); } }
        /* sanity: exact matrices of the class are recognised */
        int exact_id = 1; for (int i = 0; i < 9; i++) if (t.matrix[i / 3][i % 3] != ((i % 4) ? 0 : 65536)) exact_id = 0;
        if (exact_id && !ret) orc ("is-exact", "%s rejects the exact identity", op);
    } else if (!strcmp (op, "is_inverse")) {
        getT (&l); getT (&r); if (g_bad) goto bad;
        int ret = pixman_transform_is_inverse (&l, &r); fprintf (fr, "%d\n", ret); stat ("op:is_*");
        { /* spec: the per-term rounded product is representable and passes the identity test */
            i128 a[9], b[9], e[9]; T128 (&l, a); T128 (&r, b); int ok = ref_mul (a, b, e), judged = 1, exp = 0;
            if (ok) { for (int i = 0; i < 9; i++) if (e[i] == I32MIN) judged = 0;
                if (iabs (e[0] - e[4]) > I32MAX || iabs (e[0] - e[8]) > I32MAX) judged = 0;
                exp = iabs (e[0] - e[4]) <= 2 && iabs (e[0] - e[8]) <= 2 && iabs (e[0]) > 2 && iabs (e[1]) <= 2 && iabs (e[2]) <= 2 && iabs (e[3]) <= 2 && iabs (e[5]) <= 2 && iabs (e[6]) <= 2 && iabs (e[7]) <= 2; }
            if (judged) { stat (exp ? "is_inverse:expected TRUE" : "is_inverse:expected FALSE"); if (exp != (ret != 0)) orc ("is-spec", "is_inverse differs from: product representable and within two units of a uniform diagonal"); } }
    } else if (!strcmp (op, "invert")) {
        T d; getT (&t); if (g_bad) goto bad; d = t;
        int ret = pixman_transform_invert (&d, &t);
        if (ret) { fprintf (fr, "1 "); prT (fr, &d); } else fprintf (fr, "0");
        oracle_invert (&t, ret, &d, fr); stat ("op:invert");
    } else if (!strcmp (op, "f_from")) {      /* pixman_transform_from_pixman_f_transform on one value */
        double d = getd (); if (g_bad) goto bad;
        pixman_f_transform_t ft; pixman_f_transform_init_identity (&ft); ft.m[1][2] = d;
        int ret = pixman_transform_from_pixman_f_transform (&t, &ft);
        fprintf (fr, "%d %d\n", ret, ret ? t.matrix[1][2] : 0);
        long double x = (long double) d * 65536.0L;
        if (ret) { if (ldabs ((long double) t.matrix[1][2] - x) > 0.5L) orc ("from-f-not-nearest", "from_pixman_f_transform: not the nearest 16.16 value [%s]", x == 0.5L - 0x1p-54L ? "the double just below 0.5/65536: v*65536+0.5 rounds to 1.0 in binary64" : "other");
                   if (t.matrix[0][0] != 65536 || t.matrix[2][2] != 65536 || t.matrix[0][1] != 0) orc ("from-f-not-nearest", "from_pixman_f_transform: identity entries changed"); }
        else if (ldabs ((long double) d) <= 32767.0L) orc ("from-f-spurious-false", "from_pixman_f_transform: FALSE for a value inside [-32767,32767]");
        if (ret && ldabs ((long double) d) > 32768.0L) orc ("from-f-true-on-overflow", "from_pixman_f_transform: TRUE for an unrepresentable value");
        stat ("op:f_from");
    } else if (!strcmp (op, "f_to")) {        /* pixman_f_transform_from_pixman_transform: exact */
        getT (&t); if (g_bad) goto bad; pixman_f_transform_t ft; pixman_f_transform_from_pixman_transform (&ft, &t);
        int ok = 1; for (int i = 0; i < 9; i++) if (ft.m[i / 3][i % 3] * 65536.0 != (double) t.matrix[i / 3][i % 3]) ok = 0;
        fprintf (fr, "%d |", ok); for (int i = 0; i < 9; i++) { fputc (' ', fr); prd (fr, ft.m[i / 3][i % 3]); } fprintf (fr, "\n");
        if (!ok) orc ("to-f-inexact", "f_transform_from_pixman_transform is not exact"); stat ("op:f_to");
    } else if (!strcmp (op, "f_invert")) {    /* double inverse of a fixed matrix seen as doubles: A*inv ~ I */
        getT (&t); if (g_bad) goto bad; pixman_f_transform_t ft, fi; pixman_f_transform_from_pixman_transform (&ft, &t);
        int ret = pixman_f_transform_invert (&fi, &ft); fprintf (fr, "%d", ret); if (ret) for (int i = 0; i < 9; i++) { fprintf (fr, " "); prd (fr, fi.m[i / 3][i % 3]); }
        oracle_f_invert (&t, ret, &fi, fr);
        i128 a[9]; T128 (&t, a); i128 det = a[0] * (a[4] * a[8] - a[5] * a[7]) - a[1] * (a[3] * a[8] - a[5] * a[6]) + a[2] * (a[3] * a[7] - a[4] * a[6]);
        int small = 1; for (int i = 0; i < 9; i++) if (iabs (a[i]) > 65536 * 4) small = 0;
        if (ret && det != 0 && small) { pixman_f_transform_t p; pixman_f_transform_multiply (&p, &ft, &fi);
            long double scale = 0; for (int i = 0; i < 9; i++) { long double m = ldabs (fi.m[i / 3][i % 3]); if (m > scale) scale = m; }
            for (int i = 0; i < 9; i++) if (ldabs ((long double) p.m[i / 3][i % 3] - ((i % 4) ? 0 : 1)) > 1e-12L * (1 + scale) * 64) { orc ("f-invert-inexact", "f_transform_invert: A x inv(A) is not the identity to double precision"); break; } }
        stat ("op:f_invert");
    } else if (!strcmp (op, "f_point")) {     /* f_transform_point / point_3d / multiply / bounds against long double */
        getT (&t); pixman_f_vector_t fv, f3; for (int i = 0; i < 3; i++) { fv.v[i] = (double) (int32_t) geti () / 65536.0; } if (g_bad) goto bad;
        pixman_f_transform_t ft; pixman_f_transform_from_pixman_transform (&ft, &t); f3 = fv;
        long double s[3]; for (int j = 0; j < 3; j++) { s[j] = 0; for (int i = 0; i < 3; i++) s[j] += (long double) ft.m[j][i] * fv.v[i]; }
        long double mag[3]; for (int j = 0; j < 3; j++) { mag[j] = 0; for (int i = 0; i < 3; i++) mag[j] += ldabs ((long double) ft.m[j][i] * fv.v[i]); }
        pixman_f_transform_point_3d (&ft, &f3);
        int ok3 = 1; for (int j = 0; j < 3; j++) if (ldabs ((long double) f3.v[j] - s[j]) > 1e-15L * (mag[j] + 1e-300L) * 8) ok3 = 0;
        int ret = pixman_f_transform_point (&ft, &fv);
        fprintf (fr, "%d %d | ", ret, ok3);
        { /* exact rational verdict (Lean model Model/MatrixQ.lean must print the same text): the three products, then the quotient */
            i128 a9[9]; T128 (&t, a9); i128 vv[3], es[3]; char *sv[3] = { g_tok[10], g_tok[11], g_tok[12] }; for (int i = 0; i < 3; i++) vv[i] = (int32_t) strtoll (sv[i], 0, 10);
            for (int j = 0; j < 3; j++) es[j] = a9[j * 3] * vv[0] + a9[j * 3 + 1] * vv[1] + a9[j * 3 + 2] * vv[2];     /* units 2^-32 */
            for (int j = 0; j < 3; j++) { prq (fr, es[j], (i128) 1 << 32); fputc (' ', fr); }
            if (es[2] == 0) fprintf (fr, "; 0\n"); else { fprintf (fr, "; 1 "); prq (fr, es[0], es[2]); fputc (' ', fr); prq (fr, es[1], es[2]); fprintf (fr, " 1/1\n"); } }
        if (!ok3) orc ("f-point3d", "f_transform_point_3d differs from the exact product beyond double rounding");
        if ((s[2] == 0) != (ret == 0) && mag[2] == ldabs (s[2])) orc ("f-point-false", "f_transform_point: FALSE iff w = 0 violated");
        if (ret && mag[2] == ldabs (s[2]) && s[2] != 0) for (int j = 0; j < 2; j++) { long double q = s[j] / s[2];
            if (ldabs ((long double) fv.v[j] - q) > 1e-15L * 16 * (mag[j] / ldabs (s[2]) + 1e-300L)) { orc ("f-point", "f_transform_point differs from the exact quotient beyond double rounding"); break; } }
        stat ("op:f_point");
    } else if (!strcmp (op, "f_mul")) {
        getT (&l); getT (&r); if (g_bad) goto bad; pixman_f_transform_t fl, fr2, fd; pixman_f_transform_from_pixman_transform (&fl, &l); pixman_f_transform_from_pixman_transform (&fr2, &r);
        pixman_f_transform_multiply (&fd, &fl, &fr2); for (int i = 0; i < 9; i++) { if (i) fputc (' ', fr); prd (fr, fd.m[i / 3][i % 3]); } fprintf (fr, " |");
        Q ql[9], qr[9]; qfromT (&l, ql); qfromT (&r, qr);
        if (qmulprint (fr, ql, qr, &fd)) orc ("f-mul", "f_transform_multiply differs from the exact product beyond 4u * sum |terms|"); fprintf (fr, "\n"); stat ("op:f_mul");
    } else if (!strcmp (op, "f_scale") || !strcmp (op, "f_rotate") || !strcmp (op, "f_translate")) {
        T f0, r0; int hf = getOptT (&f0), hr = getOptT (&r0); int32_t a = geti (), b = geti (); if (g_bad) goto bad;
        pixman_f_transform_t ff, rr; if (hf) pixman_f_transform_from_pixman_transform (&ff, &f0); if (hr) pixman_f_transform_from_pixman_transform (&rr, &r0);
        double da = a / 65536.0, db = b / 65536.0; int ret; char k = op[2];
        if (k == 's') ret = pixman_f_transform_scale (hf ? &ff : NULL, hr ? &rr : NULL, da, db);
        else if (k == 'r') ret = pixman_f_transform_rotate (hf ? &ff : NULL, hr ? &rr : NULL, da, db);
        else ret = pixman_f_transform_translate (hf ? &ff : NULL, hr ? &rr : NULL, da, db);
        fprintf (fr, "%d", ret); if (hf) for (int i = 0; i < 9; i++) { fputc (' ', fr); prd (fr, ff.m[i / 3][i % 3]); } fprintf (fr, " ;"); if (hr) for (int i = 0; i < 9; i++) { fputc (' ', fr); prd (fr, rr.m[i / 3][i % 3]); }
        /* exact verdict */
        Q one = qmk (1, 1), zero = qmk (0, 1), qa = qmk (a, 65536), qb = qmk (b, 65536), tf[9], tr[9], qf[9], qr[9];
        for (int i = 0; i < 9; i++) tf[i] = tr[i] = (i % 4) ? zero : one;
        int eret = 1, bad = 0;
        if (k == 's') { if (a == 0 || b == 0) eret = 0; else { tf[0] = qa; tf[4] = qb; tr[0] = qmk (65536, a); tr[4] = qmk (65536, b); } }
        else if (k == 'r') { tf[0] = tf[4] = tr[0] = tr[4] = qa; tf[1] = qmk (-(i128) b, 65536); tf[3] = qb; tr[1] = qb; tr[3] = qmk (-(i128) b, 65536); }
        else { tf[2] = qa; tf[5] = qb; tr[2] = qmk (-(i128) a, 65536); tr[5] = qmk (-(i128) b, 65536); }
        if (hf) qfromT (&f0, qf); if (hr) qfromT (&r0, qr);
        fprintf (fr, " | %d ", eret);
        if (!hf) fprintf (fr, "-"); else { fprintf (fr, "+"); if (eret) bad |= qmulprint (fr, tf, qf, &ff); else for (int i = 0; i < 9; i++) { fputc (' ', fr); prq (fr, qf[i].n, qf[i].d); } }
        fputc (' ', fr);
        if (!hr) fprintf (fr, "-"); else { fprintf (fr, "+"); if (eret) bad |= qmulprint (fr, qr, tr, &rr); else for (int i = 0; i < 9; i++) { fputc (' ', fr); prq (fr, qr[i].n, qr[i].d); } }
        fprintf (fr, "\n");
        if (eret != (ret != 0)) orc ("f-pair", "%s: return value differs from the exact one (FALSE iff a scale factor is zero)", op);
        else if (bad) orc ("f-pair", "%s: a matrix differs from the exact product beyond 4u * sum |terms|", op);
        if (!eret && ret == 0) { /* nothing may have been stored */ pixman_f_transform_t c; if (hf) { pixman_f_transform_from_pixman_transform (&c, &f0); if (memcmp (&c, &ff, sizeof c)) orc ("f-pair", "%s: FALSE but forward was modified", op); } }
        stat (k == 's' ? "op:f_scale" : k == 'r' ? "op:f_rotate" : "op:f_translate"); stat (ret ? "f_pair:TRUE" : "f_pair:FALSE");
    } else if (!strcmp (op, "f_bounds")) {
        pixman_box16_t b, b0; getT (&t); b.x1 = geti (); b.y1 = geti (); b.x2 = geti (); b.y2 = geti (); if (g_bad) goto bad; b0 = b;
        pixman_f_transform_t ft; pixman_f_transform_from_pixman_transform (&ft, &t);
        int ret = pixman_f_transform_bounds (&ft, &b); fprintf (fr, "%d %d %d %d %d | ", ret, b.x1, b.y1, b.x2, b.y2);
        int cx[4] = { b0.x1, b0.x2, b0.x2, b0.x1 }, cy[4] = { b0.y1, b0.y1, b0.y2, b0.y2 };
        { /* exact rational verdict: FALSE at the first corner with w = 0, else the smallest integer box around the exact corners */
            i128 e[4] = { 0, 0, 0, 0 }, lo[4], hi[4]; int eok = 1, tight = 1;
            for (int i = 0; i < 4 && eok; i++) { i128 cv[3] = { (i128) cx[i] * 65536, (i128) cy[i] * 65536, 65536 }, s3[3]; rowsum (&t, cv, s3);
                if (s3[2] == 0) { eok = 0; break; }
                i128 v4[4] = { fdiv (s3[0], s3[2]), fdiv (s3[1], s3[2]), cdiv (s3[0], s3[2]), cdiv (s3[1], s3[2]) };
                /* the library computes x, y, w exactly (48-bit products of a 16.16 entry and an int16) and rounds only the quotient:
                 * its floor/ceil may differ from the exact one only if the quotient is within 2^-51 |q| of an integer */
                long double qx = (long double) s3[0] / (long double) s3[2], qy = (long double) s3[1] / (long double) s3[2], tx = ldabs (qx) * 4.5e-16L + 1e-300L, ty = ldabs (qy) * 4.5e-16L + 1e-300L;
                i128 l4[4] = { (i128) floorl (qx - tx), (i128) floorl (qy - ty), (i128) ceill (qx - tx), (i128) ceill (qy - ty) };
                i128 h4[4] = { (i128) floorl (qx + tx), (i128) floorl (qy + ty), (i128) ceill (qx + tx), (i128) ceill (qy + ty) };
                if (ldabs (qx) > 30000 || ldabs (qy) > 30000) tight = 0;
                for (int k = 0; k < 4; k++) { int mn = k < 2;
                    if (i == 0) { e[k] = v4[k]; lo[k] = l4[k]; hi[k] = h4[k]; }
                    else { if (mn ? v4[k] < e[k] : v4[k] > e[k]) e[k] = v4[k]; if (mn ? l4[k] < lo[k] : l4[k] > lo[k]) lo[k] = l4[k]; if (mn ? h4[k] < hi[k] : h4[k] > hi[k]) hi[k] = h4[k]; } } }
            if (!eok) fprintf (fr, "0\n"); else { fprintf (fr, "1"); for (int k = 0; k < 4; k++) { fputc (' ', fr); pr128 (fr, e[k]); } fprintf (fr, "\n"); }
            if (eok != (ret != 0)) orc ("f-bounds", "f_transform_bounds: return value differs from the exact one (FALSE iff a corner has w = 0)");
            else if (ret && tight) { int lb[4] = { b.x1, b.y1, b.x2, b.y2 }; int same = 1;
                for (int k = 0; k < 4; k++) { if (lb[k] < lo[k] || lb[k] > hi[k]) { orc ("f-bounds", "f_transform_bounds: box edge %d is not the floor/ceil of the exact corner (beyond the rounding of one division)", k); break; } if (lb[k] != e[k]) same = 0; }
                stat (same ? "f_bounds:TRUE equal to the exact box" : "f_bounds:TRUE, an edge differs by the rounding of the quotient"); }
            else if (ret) stat ("f_bounds:TRUE, |corner| > 30000 (int16 range not checked by the API: not judged)"); }
        int judged = ret;
        if (ret) for (int i = 0; i < 4; i++) { i128 cv[3] = { (i128) cx[i] * 65536, (i128) cy[i] * 65536, 65536 }, s[3]; rowsum (&t, cv, s);
            if (s[2] == 0) continue; long double x = (long double) s[0] / (long double) s[2], y = (long double) s[1] / (long double) s[2];
            if (ldabs (x) > 30000 || ldabs (y) > 30000) judged = 0; }   /* int16 overflow of the box is not reported by this API: not judged */
        if (judged) for (int i = 0; i < 4; i++) { i128 cv[3] = { (i128) cx[i] * 65536, (i128) cy[i] * 65536, 65536 }, s[3]; rowsum (&t, cv, s);
            if (s[2] == 0) { orc ("f-bounds", "f_transform_bounds TRUE with w = 0"); break; }
            long double x = (long double) s[0] / (long double) s[2], y = (long double) s[1] / (long double) s[2];
            long double e = 1e-9L;
            if (x < b.x1 - e || x > b.x2 + e || y < b.y1 - e || y > b.y2 + e) { orc ("f-bounds", "f_transform_bounds: box does not contain a transformed corner"); break; } }
        stat ("op:f_bounds");
    }
#ifdef HAVE_WB
    else if (!strcmp (op, "udiv")) { uint64_t hi = getu (), lo = getu (), d = getu (), rhi = 0; if (g_bad || d == 0) goto bad;
        uint64_t rlo = wb_udiv (hi, lo, d, &rhi); fprintf (fr, "%llu %llu\n", (unsigned long long) rlo, (unsigned long long) rhi);
        /* oracle: nearest, ties up, of (hi*2^64+lo)/d, modulo 2^128 -- long division in base 2^64 */
        unsigned __int128 qh = hi / d, cur = ((unsigned __int128) (hi % d) << 64) | lo, ql = cur / d, r2 = cur % d;
        if (r2 * 2 >= d) ql++;
        qh += ql >> 64;
        if ((uint64_t) ql != rlo || (uint64_t) qh != rhi) orc ("udiv-value", "rounded_udiv_128_by_48 is not the nearest (ties up) quotient");
        stat ("op:udiv"); }
    else if (!strcmp (op, "sdiv")) { int64_t hi = geti (); uint64_t lo = getu (); int64_t d = geti (), rhi = 0; if (g_bad || d == 0) goto bad;
        int64_t rlo = wb_sdiv (hi, lo, d, &rhi); fprintf (fr, "%lld %lld\n", (long long) rlo, (long long) rhi);
        if (hi != INT64_MIN) { i128 N = (i128) (((unsigned __int128) (uint64_t) hi << 64) | lo); int neg = (N < 0) != (d < 0); unsigned __int128 a = N < 0 ? -(unsigned __int128) N : (unsigned __int128) N, ad = d < 0 ? -(unsigned __int128) d : (unsigned __int128) d;
            unsigned __int128 q = a / ad; if ((a % ad) * 2 >= ad) q++; if (neg) q = -q;
            if ((uint64_t) q != (uint64_t) rlo || (uint64_t) (q >> 64) != (uint64_t) rhi) orc ("sdiv-value", "rounded_sdiv_128_by_49 is not the nearest (ties away from zero) quotient"); }
        stat ("op:sdiv"); }
    else if (!strcmp (op, "to128")) { int64_t hi = geti (), lo = geti (); int sb = geti (); int64_t rhi = 0, rlo = 0; if (g_bad) goto bad;
        wb_to128 (hi, lo, &rhi, &rlo, sb); fprintf (fr, "%lld %lld\n", (long long) rhi, (long long) rlo); stat ("op:to128"); }
    else if (!strcmp (op, "finv")) { int32_t x = geti (); if (g_bad || x == 0) goto bad; fprintf (fr, "%d\n", wb_finv (x)); stat ("op:finv"); }
#endif
    else goto bad;
    return;
bad:
    fprintf (fr, "bad-op\n");
}

/* ------------------------------------------------------------------ fork-per-batch runner */
static FILE *c_fr;
static void on_signal (int s) { sh->sig = s; if (c_fr) fflush (c_fr); if (g_orc) fflush (g_orc); _exit (100); }

/* does the request make pixman_transform_point_31_16 divide by exactly -2^48 ?  (w = m2.v in 32.32 units) */
static int reduced_div_is_m2p48 (const int64_t m[9], i128 x, i128 y, i128 z)
{
    i128 W = m[6] * x + m[7] * y + m[8] * z; i128 lim = (i128) 1 << 48;
    while (W < -lim || W >= lim) W = fdiv (W, 2);
    return W == -lim;
}
static const char *abort_shape (const char *line)
{
    char tmp[4096]; strncpy (tmp, line, sizeof tmp - 1); tmp[sizeof tmp - 1] = 0; char *tk[40]; int nt = split (tmp, tk, 40); int64_t m[9];
    if (nt < 13) return "other"; for (int i = 0; i < 9; i++) m[i] = strtoll (tk[1 + i], 0, 10);
    if (!strcmp (tk[0], "point") || !strcmp (tk[0], "p31")) return reduced_div_is_m2p48 (m, strtoll (tk[10], 0, 10), strtoll (tk[11], 0, 10), strtoll (tk[12], 0, 10)) ? "reduced divisor = -2^48" : "other";
    if (!strcmp (tk[0], "bounds") && nt >= 14) { int64_t b[4]; for (int i = 0; i < 4; i++) b[i] = strtoll (tk[10 + i], 0, 10);
        int64_t cx[4] = { b[0], b[2], b[2], b[0] }, cy[4] = { b[1], b[1], b[3], b[3] };
        for (int i = 0; i < 4; i++) if (reduced_div_is_m2p48 (m, cx[i] * 65536, cy[i] * 65536, 65536)) return "reduced divisor = -2^48"; }
    return "other";
}

static void run_all (char **lines, long n, const char *impl_path, const char *orc_path)
{
    sh = mmap (NULL, sizeof *sh, PROT_READ | PROT_WRITE, MAP_SHARED | MAP_ANONYMOUS, -1, 0);
    { FILE *f = fopen (impl_path, "w"); if (f) fclose (f); if (orc_path) { f = fopen (orc_path, "w"); if (f) fclose (f); } }
    long start = 0; long aborted = 0;
    while (start < n) {
        fflush (NULL);
        pid_t pid = fork ();
        if (pid == 0) {
            c_fr = fopen (impl_path, "a"); g_orc = orc_path ? fopen (orc_path, "a") : NULL;
            int dn = open ("/dev/null", O_WRONLY); if (dn >= 0) dup2 (dn, 2);
            signal (SIGABRT, on_signal); signal (SIGFPE, on_signal); signal (SIGSEGV, on_signal); signal (SIGBUS, on_signal); signal (SIGILL, on_signal);
            static char buf[4096];
            for (long i = start; i < n; i++) { sh->cur = i; g_line = i + 1; strncpy (buf, lines[i], sizeof buf - 1); exec_line (buf, c_fr); }
            sh->cur = n; fflush (c_fr); if (g_orc) fflush (g_orc);
            _exit (0);
        }
        int st; waitpid (pid, &st, 0);
        if (WIFEXITED (st) && WEXITSTATUS (st) == 0) break;
        long at = sh->cur; int sig = WIFSIGNALED (st) ? WTERMSIG (st) : sh->sig;
        FILE *f = fopen (impl_path, "a"); if (sig == SIGABRT) fprintf (f, "ABORT\n"); else fprintf (f, "SIGNAL %d\n", sig); fclose (f);
        if (orc_path) { f = fopen (orc_path, "a");
            /* an abort is expected only for the internal 31.16 entry points called outside their asserted input range, and for the white-box helpers */
            int expected = 0; { char tmp[4096]; strncpy (tmp, lines[at], sizeof tmp - 1); tmp[sizeof tmp - 1] = 0; char *tk[32]; int nt = split (tmp, tk, 32);
                if (nt >= 13 && !strncmp (tk[0], "p31", 3)) { int lim = strcmp (tk[0], "p31a") ? 3 : 2; for (int i = 0; i < lim; i++) { long long x = strtoll (tk[10 + i], 0, 10); if (x >= (1LL << 46) || x < -(1LL << 46)) expected = 1; } }
                if (nt >= 1 && (!strcmp (tk[0], "udiv") || !strcmp (tk[0], "sdiv"))) expected = 1; }
            if (!expected) fprintf (f, "ORACLE %ld %s the call did not return: %s [%s]\n", at + 1, sig == SIGABRT ? "abort" : "signal", sig == SIGABRT ? "abort() (failed assertion)" : "fatal signal", abort_shape (lines[at]));
            fclose (f); }
        aborted++; start = at + 1;
    }
    if (orc_path) { FILE *f = fopen (orc_path, "a"); for (int i = 0; i < sh->nstat; i++) fprintf (f, "STAT %ld %s\n", sh->stat_cnt[i], sh->stat_name[i]); fprintf (f, "STAT %ld aborted-calls\n", aborted); fclose (f); }
}

#include "matrix_gen.h"

int main (int argc, char **argv)
{
    if (argc >= 7 && !strcmp (argv[1], "gen")) {
        /* rng.h seeds with s*GAMMA: consecutive seeds would give the same sequence shifted by one draw;
         * jump to an unrelated position of the cycle instead */
        rng_seed (strtoull (argv[2], 0, 10)); rng_state = rng_u64 () ^ (rng_u64 () << 1); long n = atol (argv[3]);
        char **lines = malloc (sizeof (char *) * n);
        FILE *fo = fopen (argv[4], "w"); if (!fo) return 2;
        for (long i = 0; i < n; i++) { lines[i] = gen_request (); fprintf (fo, "%s\n", lines[i]); }
        fclose (fo);
        run_all (lines, n, argv[5], argv[6]);
        return 0;
    }
    if (argc >= 4 && !strcmp (argv[1], "exec")) {
        FILE *fi = fopen (argv[2], "r"); if (!fi) return 2;
        long n = 0, cap = 1024; char **lines = malloc (sizeof (char *) * cap); static char buf[4096];
        while (fgets (buf, sizeof buf, fi)) { if (n == cap) { cap *= 2; lines = realloc (lines, sizeof (char *) * cap); } buf[strcspn (buf, "\n")] = 0; lines[n++] = strdup (buf); }
        fclose (fi);
        run_all (lines, n, argv[3], argc >= 5 ? argv[4] : NULL);
        return 0;
    }
    fprintf (stderr, "usage: matrix gen <seed> <n> <ops> <impl> <oracle> | matrix exec <ops> <impl> [<oracle>]\n");
    return 2;
}

/* White-box translation unit for C04: the static request analysis of pixman/pixman.c
 * (analyze_extent, compute_transformed_extents) and the static inline coordinate helpers of
 * pixman-inlines.h (repeat, pad_repeat_get_scanline_bounds), reached by including the source file
 * itself (resolved through the -I <repo>/pixman path the check passes).  checks/C04.py compiles it
 * separately with the library's flags; `objcopy --keep-global-symbol` then hides everything except
 * the wb_* wrappers, so every public entry point the harness calls is the one in libpixman-1.a. */
#ifdef HAVE_CONFIG_H
#include <config.h>
#endif
#include "pixman.c"
#include "pixman-inlines.h"

int wb_analyze_extent (pixman_image_t *image, const pixman_box32_t *extents, uint32_t *flags)
{
    return analyze_extent (image, extents, flags);
}

int wb_compute_transformed_extents (pixman_transform_t *t, const pixman_box32_t *extents, int64_t out[4])
{
    box_48_16_t b;
    int r;
    b.x1 = b.y1 = b.x2 = b.y2 = 0;
    r = compute_transformed_extents (t, extents, &b);
    out[0] = b.x1; out[1] = b.y1; out[2] = b.x2; out[3] = b.y2;
    return r;
}

int wb_repeat (int mode, int *c, int size)
{
    return repeat ((pixman_repeat_t) mode, c, size);
}

void wb_pad_bounds (int32_t source_image_width, pixman_fixed_t vx, pixman_fixed_t unit_x,
		    int32_t *width, int32_t *left_pad, int32_t *right_pad)
{
    pad_repeat_get_scanline_bounds (source_image_width, vx, unit_x, width, left_pad, right_pad);
}

uint32_t wb_cover_nearest_flag (void) { return FAST_PATH_SAMPLES_COVER_CLIP_NEAREST; }
uint32_t wb_cover_bilinear_flag (void) { return FAST_PATH_SAMPLES_COVER_CLIP_BILINEAR; }
uint32_t wb_id_transform_flag (void) { return FAST_PATH_ID_TRANSFORM; }

/* Request generator of the matrix domain: magnitude extremes + structured + random.
 * Every choice derives from the SplitMix64 state (rng.h). */
static int32_t clamp32 (int64_t v) { return v > INT32_MAX ? INT32_MAX : v < INT32_MIN ? INT32_MIN : (int32_t) v; }

/* a 16.16 value: 0, +-1.0, +-2^k, +-2^k+-1, type limits, small "nice" values, small random, any bit length */
static int32_t pick_fixed (void)
{
    int c = rng_n (100);
    if (c < 7) return 0;
    if (c < 13) return rng_chance (50) ? 65536 : -65536;
    if (c < 30) { int k = rng_n (32); int64_t v = ((int64_t) 1 << k) + rng_n (3) - 1; if (rng_chance (50)) v = -v; return clamp32 (v); }
    if (c < 36) return rng_chance (50) ? INT32_MAX - rng_n (3) : INT32_MIN + rng_n (3);
    if (c < 54) { static const int fr[] = { 0, 0, 0, 0x8000, 0x4000, 1, 0xffff, 0x7fff, 0x8001 }; return (int32_t) ((uint32_t) rng_range (-40, 40) << 16) + fr[rng_n (9)]; }
    if (c < 74) return rng_range (-300000, 300000);
    return (int32_t) rng_u32 () >> rng_n (32);
}
static int32_t pick_small (void) { return rng_chance (30) ? rng_range (-3, 3) * 65536 / 2 : rng_range (-200000, 200000); }

static void gen_matrix (int32_t m[9])
{
    int k = rng_n (100);
    if (k < 30) { for (int i = 0; i < 6; i++) m[i] = pick_fixed (); m[6] = 0; m[7] = 0; m[8] = 65536; }                     /* affine */
    else if (k < 40) { for (int i = 0; i < 6; i++) m[i] = pick_fixed (); m[6] = 0; m[7] = 0; m[8] = pick_fixed (); }           /* scaled w */
    else if (k < 60) { for (int i = 0; i < 9; i++) m[i] = pick_fixed (); }                                                       /* anything */
    else if (k < 80) { for (int i = 0; i < 6; i++) m[i] = pick_small (); m[6] = rng_range (-2000, 2000); m[7] = rng_range (-2000, 2000); m[8] = 65536 + rng_range (-3000, 3000); } /* mild projective */
    else if (k < 90) { for (int i = 0; i < 6; i++) m[i] = pick_fixed (); m[6] = m[7] = m[8] = 0; m[6 + rng_n (3)] = pick_fixed (); if (rng_chance (30)) m[6 + rng_n (3)] = pick_fixed (); } /* one-entry w row */
    else { for (int i = 0; i < 9; i++) m[i] = 0; m[0] = m[4] = m[8] = 65536; int n = 1 + rng_n (3); while (n--) m[rng_n (9)] = pick_fixed (); }  /* identity with few changes */
}
static void gen_vec (int32_t v[3])
{
    v[0] = pick_fixed (); v[1] = pick_fixed (); v[2] = rng_chance (70) ? 65536 : pick_fixed ();
}
/* make w = m2 . v land near 0 or near +-2^k by solving for m[8] */
static void steer_w (int32_t m[9], int32_t v[3])
{
    if (v[2] == 0) return;
    __int128 target;   /* in 32.32 units */
    int c = rng_n (4);
    if (c == 0) target = rng_range (-3, 3);
    else if (c == 1) target = ((__int128) 1 << 32) + rng_range (-2, 2);
    else { int k = rng_n (64); target = ((__int128) 1 << k) + rng_range (-2, 2) * (rng_chance (50) ? 1 : 65536); if (rng_chance (50)) target = -target; }
    __int128 rest = (__int128) m[6] * v[0] + (__int128) m[7] * v[1];
    __int128 m8 = (target - rest) / v[2];
    if (m8 > INT32_MAX || m8 < INT32_MIN) return;
    m[8] = (int32_t) m8 + (rng_chance (30) ? rng_range (-1, 1) : 0);
}
/* results at the representable limit: affine map whose x lands near +-2^31 */
static void steer_limit (int32_t m[9], int32_t v[3])
{
    m[6] = m[7] = 0; m[8] = 65536; v[2] = 65536;
    __int128 target = (rng_chance (50) ? ((__int128) 1 << 47) : -((__int128) 1 << 47)) + (__int128) rng_range (-3, 3) * 32768 + rng_range (-2, 2);   /* in 32.32 units: +-2^31 * 65536 */
    int row = rng_n (2);
    __int128 rest = (__int128) m[row * 3] * v[0] + (__int128) m[row * 3 + 1] * v[1];
    __int128 c = (target - rest) / 65536;
    if (c > INT32_MAX || c < INT32_MIN) { m[row * 3] = 65536; m[row * 3 + 1] = 0; v[0] = clamp32 ((int64_t) (target / 65536) - rng_range (0, 70000)); c = (target - (__int128) 65536 * v[0]) / 65536; if (c > INT32_MAX || c < INT32_MIN) return; }
    m[row * 3 + 2] = (int32_t) c;
}
static int64_t pick4816 (void)
{
    int c = rng_n (100);
    if (c < 10) return (int64_t) pick_fixed ();
    if (c < 30) { int k = rng_n (47); int64_t v = ((int64_t) 1 << k) + rng_n (3) - 1; if (rng_chance (50)) v = -v; if (v >= ((int64_t) 1 << 46)) v = ((int64_t) 1 << 46) - 1; return v; }
    if (c < 38) return rng_chance (50) ? ((int64_t) 1 << 46) - 1 - rng_n (3) : -((int64_t) 1 << 46) + rng_n (3);
    if (c < 41) return rng_chance (50) ? ((int64_t) 1 << 46) + rng_n (2) : -((int64_t) 1 << 46) - 1 - rng_n (2);      /* outside the asserted range */
    if (c < 70) return ((int64_t) rng_range (-100000, 100000) << 16) + (rng_chance (50) ? 0 : rng_n (65536));
    return ((int64_t) (rng_u64 () >> 17) - ((int64_t) 1 << 46)) >> rng_n (47);
}

static char *fmt_line (const char *op, const int32_t *m, int nm, const int64_t *x, int nx)
{
    char buf[1024]; int n = snprintf (buf, sizeof buf, "%s", op);
    for (int i = 0; i < nm; i++) n += snprintf (buf + n, sizeof buf - n, " %d", m[i]);
    for (int i = 0; i < nx; i++) n += snprintf (buf + n, sizeof buf - n, " %lld", (long long) x[i]);
    return strdup (buf);
}
static int put_opt (char *buf, int n, int have, const int32_t m[9])
{
    if (!have) return n + sprintf (buf + n, " -");
    n += sprintf (buf + n, " +"); for (int i = 0; i < 9; i++) n += sprintf (buf + n, " %d", m[i]); return n;
}

static char *gen_request (void)
{
    int32_t m[18], v[3]; int64_t x[8];
    int c = rng_n (1000);
    if (c < 330) {                                   /* pixman_transform_point */
        gen_matrix (m); gen_vec (v);
        int s = rng_n (100); if (s < 25) steer_w (m, v); else if (s < 40) steer_limit (m, v);
        else if (s < 43) { /* the -2^48 divisor family: w row = (-2^31,0,0)-like with x = 2^k */ m[6] = INT32_MIN + (rng_chance (20) ? 1 : 0); m[7] = 0; m[8] = rng_chance (70) ? 0 : rng_range (-1, 1); v[0] = (int32_t) (1u << rng_range (16, 30)); v[1] = pick_fixed (); v[2] = 65536; }
        for (int i = 0; i < 3; i++) x[i] = v[i];
        return fmt_line ("point", m, 9, x, 3);
    }
    if (c < 400) { gen_matrix (m); gen_vec (v); for (int i = 0; i < 3; i++) x[i] = v[i]; return fmt_line ("point3d", m, 9, x, 3); }
    if (c < 480) {                                   /* 31.16 entry points */
        gen_matrix (m); for (int i = 0; i < 3; i++) x[i] = pick4816 (); if (rng_chance (60)) x[2] = 65536;
        int k = rng_n (10);
        if (k < 6 && rng_chance (30)) { v[0] = clamp32 (x[0]); v[1] = clamp32 (x[1]); v[2] = clamp32 (x[2]); x[0] = v[0]; x[1] = v[1]; x[2] = v[2]; steer_w (m, v); }
        return fmt_line (k < 6 ? "p31" : k < 8 ? "p31a" : "p313d", m, 9, x, 3);
    }
    if (c < 600) {                                   /* multiply */
        gen_matrix (m); gen_matrix (m + 9);
        if (rng_chance (25)) { /* entry near the int32 limit: l00*r00 ~ +-2^47 */ int k = rng_range (8, 30); m[0] = (int32_t) (1u << k) + rng_range (-1, 1); int64_t t = (((int64_t) 1 << 47) / m[0]) + rng_range (-2, 2); m[9] = clamp32 (rng_chance (50) ? t : -t); if (rng_chance (50)) { m[1] = m[2] = 0; } }
        if (rng_chance (20)) return fmt_line ("f_mul", m, 18, x, 0);     /* the double entry point on the same operands: rational model + 4u bound */
        return fmt_line ("mul", m, 18, x, 0);
    }
    if (c < 640) {
        int k = rng_n (4); x[0] = pick_fixed (); x[1] = pick_fixed ();
        return fmt_line (k == 0 ? "init_identity" : k == 1 ? "init_scale" : k == 2 ? "init_rotate" : "init_translate", m, 0, x, k == 0 ? 0 : 2);
    }
    if (c < 760) {                                   /* scale / rotate / translate */
        char buf[1024]; int k = rng_n (3); int hf = rng_chance (75), hr = rng_chance (75);
        gen_matrix (m); gen_matrix (m + 9);
        if (rng_chance (40)) { for (int i = 0; i < 18; i++) m[i] = 0; m[0] = m[4] = m[8] = m[9] = m[13] = m[17] = 65536; }
        int n = sprintf (buf, "%s%s", rng_chance (25) ? "f_" : "", k == 0 ? "scale" : k == 1 ? "rotate" : "translate");
        n = put_opt (buf, n, hf, m); n = put_opt (buf, n, hr, m + 9);
        int32_t a = pick_fixed (), b = pick_fixed ();
        if (k == 0 && rng_chance (30)) { a = rng_range (-4, 4); }
        if (k == 0 && rng_chance (50)) { b = rng_range (-20, 20) * 32768; }
        sprintf (buf + n, " %d %d", a, b);
        return strdup (buf);
    }
    if (c < 860) {                                   /* bounds */
        gen_matrix (m);
        if (rng_chance (50)) { m[0] = rng_chance (70) ? 65536 : pick_small (); m[1] = rng_chance (70) ? 0 : pick_small (); m[3] = rng_chance (70) ? 0 : pick_small (); m[4] = rng_chance (70) ? 65536 : pick_small ();
            m[2] = rng_range (-4, 4) * 32768 + (rng_chance (30) ? rng_range (-2, 2) : 0); m[5] = rng_range (-4, 4) * 32768; m[6] = m[7] = 0; m[8] = 65536; }
        for (int i = 0; i < 4; i++) { int k = rng_n (10); x[i] = k < 2 ? 32767 - rng_n (3) : k < 4 ? -32768 + rng_n (3) : k < 8 ? rng_range (-100, 100) : (int16_t) rng_u32 (); }
        if (rng_chance (70)) { if (x[0] > x[2]) { int64_t t = x[0]; x[0] = x[2]; x[2] = t; } if (x[1] > x[3]) { int64_t t = x[1]; x[1] = x[3]; x[3] = t; } }
        return fmt_line ("bounds", m, 9, x, 4);
    }
    if (c < 900) {
        int k = rng_n (4);
        for (int i = 0; i < 18; i++) m[i] = 0; m[0] = m[4] = m[8] = m[9] = m[13] = m[17] = 65536;
        if (rng_chance (35)) { /* a common diagonal other than 1.0 (the identity test is projective), each entry within the tolerance or just outside */
            int32_t d = rng_chance (50) ? pick_fixed () : rng_range (-6, 6); for (int q = 0; q < 18; q += 9) for (int i = 0; i < 3; i++) m[q + i * 4] = clamp32 ((int64_t) d + rng_range (-3, 3)); }
        if (rng_chance (40)) { /* every off-diagonal entry at the tolerance: -3..3 */ for (int i = 0; i < 18; i++) if ((i % 9) % 4) m[i] = rng_range (-3, 3); }
        int n = rng_n (5); while (n--) { int i = rng_n (18); m[i] = rng_chance (60) ? clamp32 ((int64_t) m[i] + rng_range (-4, 4)) : pick_fixed (); }
        if (k == 3) { if (rng_chance (50)) { m[2] = rng_range (-50, 50) * 65536; m[5] = rng_range (-50, 50) * 65536; m[11] = -m[2] + rng_range (-1, 1) * rng_n (4); m[14] = -m[5]; } return fmt_line ("is_inverse", m, 18, x, 0); }
        if (k == 2 && rng_chance (60)) { m[2] = rng_range (-50, 50) * 65536 + (rng_chance (50) ? rng_range (-4, 4) : 0); m[5] = pick_fixed (); }
        return fmt_line (k == 0 ? "is_identity" : k == 1 ? "is_scale" : "is_int_translate", m, 9, x, 0);
    }
#ifdef HAVE_WB
    if (c < 930) {                                   /* white-box helpers */
        int k = rng_n (10);
        if (k < 4) { char buf[256]; uint64_t hi = rng_u64 () >> rng_n (64), lo = rng_u64 () >> rng_n (64); if (rng_chance (20)) lo = -(uint64_t) rng_n (3); if (rng_chance (10)) hi = -(uint64_t) rng_n (3);
            uint64_t d = (rng_u64 () >> (16 + rng_n (48))); if (rng_chance (15)) d = ((uint64_t) 1 << 48) - rng_n (3); if (rng_chance (5)) d = ((uint64_t) 1 << rng_n (49)) + rng_n (2); if (d == 0) d = 1;
            if (rng_chance (25)) { /* a tie: N = d*q + d/2 */ d &= ~(uint64_t) 1; if (d == 0) d = 2; unsigned __int128 N = (unsigned __int128) d * (rng_u64 () >> rng_n (40)) + d / 2; hi = (uint64_t) (N >> 64); lo = (uint64_t) N; }
            sprintf (buf, "udiv %llu %llu %llu", (unsigned long long) hi, (unsigned long long) lo, (unsigned long long) d); return strdup (buf); }
        if (k < 8) { char buf[256]; int64_t hi = (int64_t) rng_u64 () >> (1 + rng_n (63)); uint64_t lo = rng_u64 () >> rng_n (64); if (rng_chance (20)) lo = 0;
            int64_t d = (int64_t) (rng_u64 () >> (16 + rng_n (48))); if (rng_chance (15)) d = ((int64_t) 1 << 48) - rng_n (3); if (d == 0) d = 1; if (rng_chance (50)) d = -d;
            sprintf (buf, "sdiv %lld %llu %lld", (long long) hi, (unsigned long long) lo, (long long) d); return strdup (buf); }
        if (k < 9) { char buf[256]; int64_t hi = (int64_t) rng_u64 () >> (1 + rng_n (63)); int64_t lo = rng_chance (50) ? rng_n (65536) : ((int64_t) rng_u64 () >> (15 + rng_n (48)));
            sprintf (buf, "to128 %lld %lld %d", (long long) hi, (long long) lo, rng_range (-15, 32)); return strdup (buf); }
        { int32_t xx = pick_fixed (); if (xx == 0) xx = 1; if (rng_chance (30)) xx = rng_range (1, 6) * (rng_chance (50) ? 1 : -1); x[0] = xx; return fmt_line ("finv", m, 0, x, 1); }
    }
#endif
    /* floating point family: oracle only */
    {
        int k = rng_n (100);
        if (k < 35 || k >= 80) {                     /* invert / f_invert: well conditioned, singular, anything */
            int s = rng_n (15);
            if (s >= 10) { /* exactly singular / nearly singular with LARGE entries: double rounding of the determinant matters */
                int big = 1 + rng_n (22);
                for (int i = 0; i < 3; i++) m[i] = (int32_t) rng_u32 () >> big;
                if (s == 10 || s == 12) { for (int i = 0; i < 3; i++) m[3 + i] = (int32_t) rng_u32 () >> big; }                       /* rank 2, independent rows */
                else if (s == 11 || s == 13) { for (int i = 0; i < 3; i++) m[3 + i] = clamp32 ((int64_t) m[i] + rng_range (-3, 3)); }   /* rank 2, nearly proportional rows: tiny minors */
                else { int k1 = rng_range (-2, 2); for (int i = 0; i < 3; i++) m[3 + i] = clamp32 ((int64_t) k1 * m[i]); }              /* rank 1 */
                { int a = rng_range (-1, 1), b = rng_range (-1, 1); if (s == 14) b = 0; for (int i = 0; i < 3; i++) m[6 + i] = clamp32 ((int64_t) a * m[i] + (int64_t) b * m[3 + i]); }
                if (rng_chance (50)) { int p = rng_n (3), q = rng_n (3); for (int i = 0; i < 3; i++) { int32_t t = m[p * 3 + i]; m[p * 3 + i] = m[q * 3 + i]; m[q * 3 + i] = t; } }
                if (s >= 12 && rng_chance (60)) { int n = 1 + rng_n (2); while (n--) { int e = rng_n (9); m[e] = clamp32 ((int64_t) m[e] + rng_range (-2, 2)); } }   /* one or two entries off by a unit or two */
            }
            else if (s < 5) { for (int i = 0; i < 9; i++) m[i] = rng_range (-4 * 65536, 4 * 65536); if (rng_chance (50)) { m[6] = m[7] = 0; m[8] = 65536; } }
            else if (s < 8) { /* exactly singular with small entries */ for (int i = 0; i < 6; i++) m[i] = rng_range (-4000, 4000) * (rng_chance (50) ? 16 : 1); int a = rng_range (-3, 3), b = rng_range (-3, 3); for (int i = 0; i < 3; i++) m[6 + i] = a * m[i] + b * m[3 + i];
                if (rng_chance (30)) { int p = rng_n (3), q = rng_n (3); for (int i = 0; i < 3; i++) { int32_t t = m[p * 3 + i]; m[p * 3 + i] = m[q * 3 + i]; m[q * 3 + i] = t; } } }
            else gen_matrix (m);
            return fmt_line (k < 35 ? "invert" : "f_invert", m, 9, x, 0);
        }
        if (k < 50) { char buf[64]; double d; int s = rng_n (9);
            if (s >= 6) { /* binary64 edge cases of v*65536+0.5: neighbours of ties, of the range limits, of powers of two; subnormals. (the double just below 0.5/65536, repaired in 50296f6, included) */
                if (s == 6) { int64_t kk = rng_chance (50) ? rng_range (-70000, 70000) : (int64_t) pick_fixed (); d = ((double) kk + 0.5) / 65536.0; int n = rng_n (4); double dir = rng_chance (50) ? INFINITY : -INFINITY; while (n--) d = nextafter (d, dir); }
                else if (s == 7) { static const double lim[] = { 32767.0, -32767.0, 32768.0, -32768.0, 32767.5, 0.5 / 65536.0 * 0 + 1.0 / 65536.0 }; d = lim[rng_n (6)]; int n = rng_n (3); double dir = rng_chance (50) ? INFINITY : -INFINITY; while (n--) d = nextafter (d, dir); }
                else { uint64_t b = rng_u64 (); if (rng_chance (50)) b &= 0x800fffffffffffffULL | ((uint64_t) rng_n (40) << 52); else { b &= 0x800fffffffffffffULL; b |= (uint64_t) (1023 - 70 + rng_n (90)) << 52; } memcpy (&d, &b, 8); }
                uint64_t u; memcpy (&u, &d, 8); sprintf (buf, "f_from %llu", (unsigned long long) u); return strdup (buf); }
            if (s == 0) d = (double) pick_fixed () / 65536.0; else if (s == 1) d = ((double) pick_fixed () + (rng_chance (50) ? 0.5 : (double) rng_n (1000) / 1000.0)) / 65536.0;
            else if (s == 2) d = (rng_chance (50) ? 1 : -1) * (32767.0 + (double) rng_range (-3, 70000) / 65536.0); else if (s == 3) d = (double) rng_range (-40000, 40000) + (double) rng_n (65536) / 65536.0;
            else if (s == 4) d = (double) (int64_t) rng_u64 () / 4294967296.0 / 65536.0; else d = (double) rng_range (-1000000, 1000000) / 4096.0 / 65536.0;
            uint64_t u; memcpy (&u, &d, 8); sprintf (buf, "f_from %llu", (unsigned long long) u); return strdup (buf); }
        if (k < 55) { gen_matrix (m); return fmt_line ("f_to", m, 9, x, 0); }
        if (k < 70) { gen_matrix (m); gen_vec (v); for (int i = 0; i < 3; i++) x[i] = v[i]; return fmt_line ("f_point", m, 9, x, 3); }
        gen_matrix (m); if (rng_chance (60)) { for (int i = 0; i < 6; i++) m[i] = pick_small (); m[6] = m[7] = 0; m[8] = 65536; }
        for (int i = 0; i < 4; i++) x[i] = rng_range (-200, 200);
        return fmt_line ("f_bounds", m, 9, x, 4);
    }
}

/* C15 — fault enumeration harness: every allocation request of an API call is made to fail in turn.
 *
 *   allocfail gen  <seed> <nscen> <ops_model> <impl_model> <ops_draw> <impl_draw> <oracle>
 *   allocfail exec <ops_in> <impl_out> [oracle_out]
 *
 * Linked with -Wl,--wrap=malloc,--wrap=calloc,--wrap=realloc,--wrap=free against the static
 * libpixman, so every allocation of the library goes through the wrappers below: they count
 * requests while armed, refuse the k-th one (mode s) or the k-th and all later ones (mode p), and
 * keep the set of live blocks (leak / double free detection).  Every request line is executed in a
 * forked child, so a crash is an observation, not the end of the run.
 *
 * Request lines (also the input of `pixdrv regionalloc` for rg/ct/st):
 *   rg <bits> <mode> <k> <op> <nobj> <obj>* <args>      region operations
 *   ct <mode> <k> <ctor> <variant>                      constructors
 *   st <mode> <k> <setter> <variant>                    setters with a status result
 *   dr <mode> <k> <scenario> <v0> <v1> <v2>             drawing calls (oracle only, no model)
 */
#ifdef HAVE_CONFIG_H
#include <config.h>
#endif
#include <stdio.h>
#include <stdlib.h>
#include <string.h>
#include <unistd.h>
#include <signal.h>
#include <sys/wait.h>
#include <sys/resource.h>
#include "pixman-private.h"
#ifdef PIXMAN_VERIF_GLYPH_HIGH_WATER
/* white-box build for the glyph_hist scenario: pixman-glyph.c of the tree under test is compiled into
 * this harness with small (power of two) tables, so that eviction is reachable with a few inserts;
 * the archive member of the library is then not linked. */
#include "pixman-glyph.c"
#endif
#include "rng.h"

/* ------------------------------------------------------------------ allocator wrappers */
void *__real_malloc(size_t); void *__real_calloc(size_t,size_t); void *__real_realloc(void*,size_t); void __real_free(void*);
static volatile int af_armed;      /* requests are counted and may be refused */
static int af_enable = 1;          /* AF_CALL arms only when set */
static int af_tracking;            /* blocks are recorded */
static int af_mode;                /* 0 none, 1 single, 2 persistent */
static long af_k, af_req;
#define AF_MAXLIVE 8192
static void *af_live[AF_MAXLIVE]; static int af_nlive;
static void *af_dead[AF_MAXLIVE]; static int af_ndead;
static int af_bad;

static void af_add(void *p){ if (!af_tracking||!p) return; for (int i=0;i<af_ndead;i++) if (af_dead[i]==p){ af_dead[i]=af_dead[--af_ndead]; break; } if (af_nlive<AF_MAXLIVE) af_live[af_nlive++]=p; }
/* returns 1 if p was live and is now removed, 0 if unknown (allocated before tracking), -1 if it was freed already */
static int af_del(void *p){ for (int i=0;i<af_nlive;i++) if (af_live[i]==p){ af_live[i]=af_live[--af_nlive]; if (af_ndead<AF_MAXLIVE) af_dead[af_ndead++]=p; return 1; } for (int i=0;i<af_ndead;i++) if (af_dead[i]==p) return -1; return 0; }
static int af_refuse(void){ af_req++; return (af_mode==1 && af_req==af_k) || (af_mode==2 && af_req>=af_k); }
void *__wrap_malloc(size_t n){ if (af_armed && af_refuse()) return NULL; void *p=__real_malloc(n); af_add(p); return p; }
void *__wrap_calloc(size_t a,size_t b){ if (af_armed && af_refuse()) return NULL; void *p=__real_calloc(a,b); af_add(p); return p; }
void *__wrap_realloc(void *o,size_t n){
    if (af_armed && af_refuse()) return NULL;
    int r=0;
    if (af_tracking && o) { r=af_del(o); if (r<0){ af_bad++; return NULL; } }
    void *p=__real_realloc(o,n);
    if (p) { if (!o || r>0) af_add(p); }
    else if (r>0) af_add(o);
    return p;
}
void __wrap_free(void *p){ if (!p) return; if (af_tracking){ int r=af_del(p); if (r<0){ af_bad++; return; } } __real_free(p); }
static void *af_given(size_t n){ void *p=__real_malloc(n); af_add(p); return p; }
static void af_arm(const char *mode,long k){ af_mode = mode[0]=='s'?1: mode[0]=='p'?2:0; af_k=k; af_req=0; }
static void af_disarm(void){ af_armed=0; }
#define AF_CALL(x) do{ af_armed=af_enable; x; af_armed=0; }while(0)

/* ------------------------------------------------------------------ regions */
static int deser_32(char **tok, int *pos, int ntok, pixman_region32_t *r);
#define RT pixman_region16_t
#define BT pixman_box16_t
#define DT pixman_region16_data_t
#define P(x) pixman_region##x
#define SUF(x) x##_16
#define BITS 16
#include "allocfail_rg.h"
#undef RT
#undef BT
#undef DT
#undef P
#undef SUF
#undef BITS
#undef MAXOBJ
#define RT pixman_region32_t
#define BT pixman_box32_t
#define DT pixman_region32_data_t
#define P(x) pixman_region32##x
#define SUF(x) x##_32
#define BITS 32
#include "allocfail_rg.h"

#define ORC2(...) do{ if ((size_t)q+200<ocap) q+=snprintf(orc+q,ocap-q,__VA_ARGS__); }while(0)

/* ------------------------------------------------------------------ constructors */
static uint64_t lrng; static uint32_t lr(void){ lrng+=0x9E3779B97F4A7C15ULL; uint64_t z=lrng; z=(z^(z>>30))*0xBF58476D1CE4E5B9ULL; z=(z^(z>>27))*0x94D049BB133111EBULL; return (uint32_t)((z^(z>>31))>>32); }

static int exec_ct(char **tok,int nt,char *out,size_t cap,char *orc,size_t ocap)
{
    if (nt!=5) return 0;
    const char *k=tok[3]; int v=atoi(tok[4]); int q=0; orc[0]=0;
    pixman_image_t *img=NULL, *gimg=NULL; pixman_glyph_cache_t *gc=NULL; pixman_fixed_t *fp=NULL; const void *g=NULL;
    int ret=0; static uint32_t user[64*4];
    pixman_gradient_stop_t stops[3]={{0,{0,0,0,0xffff}},{0x8000,{0xffff,0,0,0x8000}},{0x10000,{0,0xffff,0,0xffff}}};
    pixman_point_fixed_t p1={0,0},p2={pixman_int_to_fixed(40),pixman_int_to_fixed(30)};
    pixman_color_t col={0x8000,0x4000,0x2000,0xc000};
    af_arm(tok[1],atol(tok[2]));
    if (!strcmp(k,"bits_own")) { pixman_format_code_t f[]={PIXMAN_a8r8g8b8,PIXMAN_a8,PIXMAN_a1,PIXMAN_r5g6b5,PIXMAN_rgba_float,PIXMAN_a2r10g10b10}; AF_CALL(img=pixman_image_create_bits(f[v%6],1+v%37,1+v%11,NULL,0)); ret=img!=NULL; }
    else if (!strcmp(k,"bits_own_noclear")) { AF_CALL(img=pixman_image_create_bits_no_clear(v&1?PIXMAN_a8r8g8b8:PIXMAN_a8,3+v%29,2+v%7,NULL,0)); ret=img!=NULL; }
    else if (!strcmp(k,"bits_user")) {
        if (v%3==0) AF_CALL(img=pixman_image_create_bits(PIXMAN_a8r8g8b8,16,4,user,64));
        else if (v%3==1) AF_CALL(img=pixman_image_create_bits(PIXMAN_a8r8g8b8,0,5,NULL,0));       /* no pixels: no buffer */
        else AF_CALL(img=pixman_image_create_bits(PIXMAN_a8,7,0,NULL,0));
        ret=img!=NULL; }
    else if (!strcmp(k,"solid")) { AF_CALL(img=pixman_image_create_solid_fill(&col)); ret=img!=NULL; }
    else if (!strcmp(k,"gradient")) {
        if (v%3==0) AF_CALL(img=pixman_image_create_linear_gradient(&p1,&p2,stops,2+(v/3)%2));
        else if (v%3==1) AF_CALL(img=pixman_image_create_radial_gradient(&p1,&p2,pixman_int_to_fixed(1),pixman_int_to_fixed(20),stops,3));
        else AF_CALL(img=pixman_image_create_conical_gradient(&p2,pixman_int_to_fixed(30),stops,3));
        ret=img!=NULL; }
    else if (!strcmp(k,"glyph_cache")) { AF_CALL(gc=pixman_glyph_cache_create()); ret=gc!=NULL; }
    else if (!strcmp(k,"glyph_insert")) {
        af_tracking=0; gc=pixman_glyph_cache_create(); gimg=pixman_image_create_bits(v&1?PIXMAN_a8:PIXMAN_a8r8g8b8,5+v%9,4+v%5,NULL,0); af_tracking=1;
        pixman_glyph_cache_freeze(gc);
        AF_CALL(g=pixman_glyph_cache_insert(gc,(void*)1,(void*)2,1,2,gimg));
        pixman_glyph_cache_thaw(gc);
        ret=g!=NULL;
        if (!ret && pixman_glyph_cache_lookup(gc,(void*)1,(void*)2)) ORC2("|insert returned NULL but the glyph is in the cache");
        if (ret && pixman_glyph_cache_lookup(gc,(void*)1,(void*)2)!=g) ORC2("|inserted glyph is not found");
    }
    else if (!strcmp(k,"filter")) { int n=0; AF_CALL(fp=pixman_filter_create_separable_convolution(&n,pixman_int_to_fixed(1+v%3),pixman_int_to_fixed(1),PIXMAN_KERNEL_LINEAR,PIXMAN_KERNEL_BOX,PIXMAN_KERNEL_BOX,PIXMAN_KERNEL_IMPULSE,1+v%2,1)); ret=fp!=NULL; }
    else { af_disarm(); return 0; }
    long req=af_req; int live=af_nlive;
    /* the object is usable */
    if (img && (!strcmp(k,"bits_own")||!strcmp(k,"bits_own_noclear"))) { pixman_color_t c2={0xffff,0,0,0xffff}; pixman_rectangle16_t r={0,0,1,1}; if(!pixman_image_fill_rectangles(PIXMAN_OP_SRC,img,&c2,1,&r)) ORC2("|fill on the new image fails"); }
    if (img) pixman_image_unref(img);
    if (fp) free(fp);
    if (!strcmp(k,"glyph_insert")) { if (g) { pixman_glyph_cache_remove(gc,(void*)1,(void*)2); } af_tracking=0; pixman_glyph_cache_destroy(gc); pixman_image_unref(gimg); af_tracking=1; }
    else if (gc) pixman_glyph_cache_destroy(gc);
    if (af_nlive) ORC2("|%d block(s) leaked by constructor %s",af_nlive,k);
    if (af_bad) ORC2("|free of a block that is not live");
    if (!ret && live) ORC2("|constructor returned NULL with %d block(s) still allocated",live);
    snprintf(out,cap,"%d ; req=%ld live=%d bad=%d fin=%d",ret,req,live,af_bad?1:0,af_nlive);
    return 1;
}

static int exec_st(char **tok,int nt,char *out,size_t cap,char *orc,size_t ocap)
{
    if (nt!=5) return 0;
    const char *k=tok[3]; int v=atoi(tok[4]); int q=0; orc[0]=0; int ret=0;
    af_tracking=0; pixman_image_t *img=pixman_image_create_bits(PIXMAN_a8r8g8b8,8,8,NULL,0); af_tracking=1;
    pixman_transform_t t1,t2; pixman_transform_init_scale(&t1,pixman_int_to_fixed(2),pixman_int_to_fixed(1+v%3)); pixman_transform_init_translate(&t2,pixman_int_to_fixed(3),pixman_int_to_fixed(v%5));
    pixman_fixed_t conv[2+9]; conv[0]=pixman_int_to_fixed(3); conv[1]=pixman_int_to_fixed(3); for(int i=0;i<9;i++) conv[2+i]=pixman_fixed_1/9;
    pixman_fixed_t conv1[3]={pixman_fixed_1,pixman_fixed_1,pixman_fixed_1};
    if (!strcmp(k,"transform_reuse")) pixman_image_set_transform(img,&t1);
    if (!strcmp(k,"filter_replace")) pixman_image_set_filter(img,PIXMAN_FILTER_CONVOLUTION,conv1,3);
    af_arm(tok[1],atol(tok[2]));
    if (!strcmp(k,"transform_new")||!strcmp(k,"transform_reuse")) AF_CALL(ret=pixman_image_set_transform(img,&t2));
    else if (!strcmp(k,"filter_new")||!strcmp(k,"filter_replace")) AF_CALL(ret=pixman_image_set_filter(img,PIXMAN_FILTER_CONVOLUTION,conv,11));
    else { af_disarm(); return 0; }
    long req=af_req; int live=af_nlive;
    /* on failure the image keeps its previous setting */
    if (!ret) {
        if (!strcmp(k,"transform_new") && img->common.transform) ORC2("|set_transform failed but a matrix is attached");
        if (!strcmp(k,"filter_new") && (img->common.filter_params || img->common.filter==PIXMAN_FILTER_CONVOLUTION)) ORC2("|set_filter failed but the filter changed");
        if (!strcmp(k,"filter_replace") && (img->common.n_filter_params!=3)) ORC2("|set_filter failed but the parameters changed");
    }
    /* still usable */
    { pixman_image_t *d=pixman_image_create_bits(PIXMAN_a8r8g8b8,8,8,NULL,0); pixman_image_composite32(PIXMAN_OP_SRC,img,NULL,d,0,0,0,0,0,0,8,8); pixman_image_unref(d); }
    pixman_image_set_transform(img,NULL); pixman_image_set_filter(img,PIXMAN_FILTER_NEAREST,NULL,0);
    af_tracking=0; pixman_image_unref(img); af_tracking=1;   /* the image itself was allocated untracked */
    if (af_nlive) ORC2("|%d block(s) leaked by setter %s",af_nlive,k);
    if (af_bad) ORC2("|free of a block that is not live");
    snprintf(out,cap,"%d ; req=%ld live=%d bad=%d fin=%d",ret,req,live,af_bad?1:0,af_nlive);
    return 1;
}

/* ------------------------------------------------------------------ drawing scenarios */
#define GUARD 3
typedef struct {
    pixman_image_t *src,*mask,*dst,*aux,*aux2;
    uint32_t *buf,*orig,*want; size_t words; int stride,W,H,padl;
    pixman_region32_t permit; int have_permit;
    pixman_glyph_cache_t *gc; pixman_glyph_t glyphs[8]; int nglyphs;
    int v[3]; int strict; int status; int frozen; const char *name; pixman_op_t op;
    pixman_region32_t clip32; pixman_region16_t clip16; int x,y,w,h;
    void *sv_ptr[4],*sv_copy[4]; size_t sv_len[4]; int nsv;
} dctx;
static void sv_add(dctx *c,pixman_image_t *i){ size_t n=(size_t)pixman_image_get_stride(i)*pixman_image_get_height(i); c->sv_ptr[c->nsv]=pixman_image_get_data(i); c->sv_len[c->nsv]=n; c->sv_copy[c->nsv]=__real_malloc(n); memcpy(c->sv_copy[c->nsv],c->sv_ptr[c->nsv],n); c->nsv++; }
static void restore(dctx *c){ memcpy(c->buf,c->orig,c->words*4); for(int i=0;i<c->nsv;i++) memcpy(c->sv_ptr[i],c->sv_copy[i],c->sv_len[i]); }

static void surf_make(dctx *c,int W,int H,pixman_format_code_t fmt)
{
    c->W=W; c->H=H; c->padl=2; c->stride=W+5; c->words=(size_t)(H+2*GUARD)*c->stride;
    c->buf=__real_malloc(c->words*4); c->orig=__real_malloc(c->words*4); c->want=__real_malloc(c->words*4);
    for (size_t i=0;i<c->words;i++) c->buf[i]=lr();
    memcpy(c->orig,c->buf,c->words*4);
    c->dst=pixman_image_create_bits(fmt,W,H,c->buf+GUARD*c->stride+c->padl,c->stride*4);
}
static pixman_image_t *img_rand(pixman_format_code_t fmt,int w,int h)
{
    pixman_image_t *i=pixman_image_create_bits(fmt,w,h,NULL,0); if(!i) return NULL;
    uint32_t *b=pixman_image_get_data(i); size_t n=(size_t)pixman_image_get_stride(i)/4*h;
    if (fmt==PIXMAN_rgba_float) { float *f=(float*)b; for(size_t k=0;k<n;k++) f[k]=(lr()&0xff)/255.0f; }
    else for(size_t k=0;k<n;k++) b[k]=lr();
    return i;
}
static const pixman_format_code_t odd_src[]={PIXMAN_a4r4g4b4,PIXMAN_a1r5g5b5,PIXMAN_a2b10g10r10,PIXMAN_b8g8r8a8};
static const pixman_format_code_t dst_fmt[]={PIXMAN_a8r8g8b8,PIXMAN_a2r10g10b10,PIXMAN_x8r8g8b8};
static const pixman_op_t ops[]={PIXMAN_OP_OVER,PIXMAN_OP_MULTIPLY,PIXMAN_OP_CONJOINT_OVER,PIXMAN_OP_ADD,PIXMAN_OP_COLOR_DODGE,PIXMAN_OP_IN_REVERSE};

static void permit_rect(dctx *c,int x,int y,int w,int h){ pixman_region32_init_rect(&c->permit,x,y,w,h); pixman_region32_intersect_rect(&c->permit,&c->permit,0,0,c->W,c->H); c->have_permit=1; c->x=x;c->y=y;c->w=w;c->h=h; }

/* each scenario: setup (unarmed), call (AF_CALL around the API under test; returns status or -1) */
static void set_multi_clip(dctx *c, pixman_image_t *img, int n)
{
    pixman_box32_t b[40]; if (n>40) n=40;
    for (int i=0;i<n;i++){ b[i].x1=3+i*(c->W/(n+1)); b[i].x2=b[i].x1+c->W/(2*n+2)+1; b[i].y1=(i&1); b[i].y2=c->H-((i>>1)&1); }
    pixman_region32_init_rects(&c->clip32,b,n);
    pixman_image_set_clip_region32(img,&c->clip32);
}

static void s_general_setup(dctx *c)
{
    int wide = c->v[1]&1; int W = wide ? 520+c->v[0]%90 : 2050+c->v[0]%200;
    surf_make(c,W+7,3,dst_fmt[wide?1:(c->v[1]>>1)%3==1?0:(c->v[1]>>1)%3]);
    c->src=img_rand(wide?PIXMAN_a2b10g10r10:odd_src[c->v[2]%4],W+3,4);
    if (c->v[2]&4) { c->mask=img_rand((c->v[2]&8)?PIXMAN_a8r8g8b8:PIXMAN_a8,W+2,3); if (c->v[2]&8) pixman_image_set_component_alpha(c->mask,1); }
    c->op=ops[(c->v[1]>>3)%6];
    permit_rect(c,2,0,W,3);
    if (c->v[2]&16) { set_multi_clip(c,c->dst,3+c->v[0]%4); pixman_region32_intersect(&c->permit,&c->permit,&c->clip32); }
}
static int s_general_call(dctx *c){ AF_CALL(pixman_image_composite32(c->op,c->src,c->mask,c->dst,1,0,0,0,c->x,c->y,c->w,c->h)); return -1; }

static void s_xform_setup(dctx *c)
{
    int W=300+c->v[0]%400; surf_make(c,W,5,c->v[1]&1?PIXMAN_a8r8g8b8:PIXMAN_x8r8g8b8);
    c->src=img_rand(c->v[1]&2?PIXMAN_a8r8g8b8:PIXMAN_x8r8g8b8,2*W+8,16);
    pixman_transform_t t; pixman_transform_init_scale(&t,pixman_fixed_1+pixman_fixed_1/(2+c->v[2]%5),pixman_fixed_1+pixman_fixed_1/3);
    if (c->v[2]&8) { pixman_transform_t r; pixman_transform_init_rotate(&r,pixman_double_to_fixed(0.98),pixman_double_to_fixed(0.19)); pixman_transform_multiply(&t,&t,&r); }
    pixman_image_set_transform(c->src,&t);
    pixman_image_set_filter(c->src,(c->v[1]&4)?PIXMAN_FILTER_NEAREST:PIXMAN_FILTER_BILINEAR,NULL,0);
    if (c->v[1]&8) pixman_image_set_repeat(c->src,PIXMAN_REPEAT_PAD+(c->v[2]&1));
    c->op=(c->v[1]&16)?PIXMAN_OP_SRC:PIXMAN_OP_OVER;
    permit_rect(c,1,1,W-2,3);
}
static int s_xform_call(dctx *c){ AF_CALL(pixman_image_composite32(c->op,c->src,NULL,c->dst,2,2,0,0,c->x,c->y,c->w,c->h)); return -1; }

static void s_gradient_setup(dctx *c)
{
    int wide=c->v[1]&1; int W= wide?530+c->v[0]%50:2060+c->v[0]%100; surf_make(c,W+4,3,wide?PIXMAN_a2r10g10b10:PIXMAN_a8r8g8b8);
    pixman_gradient_stop_t stops[3]={{0,{0xffff,0,0,0xffff}},{0x9000,{0,0xffff,0,0x7000}},{0x10000,{0,0,0xffff,0xffff}}};
    pixman_point_fixed_t p1={0,0},p2={pixman_int_to_fixed(W),pixman_int_to_fixed(3)};
    int kind=(c->v[1]>>1)%3;
    c->src = kind==0?pixman_image_create_linear_gradient(&p1,&p2,stops,3): kind==1?pixman_image_create_radial_gradient(&p1,&p2,pixman_int_to_fixed(2),pixman_int_to_fixed(W/2),stops,3):pixman_image_create_conical_gradient(&p2,pixman_int_to_fixed(45),stops,3);
    pixman_image_set_repeat(c->src,PIXMAN_REPEAT_NORMAL+c->v[2]%3);
    c->op=PIXMAN_OP_OVER; permit_rect(c,2,0,W,3);
}
static int s_gradient_call(dctx *c){ AF_CALL(pixman_image_composite32(c->op,c->src,NULL,c->dst,0,0,0,0,c->x,c->y,c->w,c->h)); return -1; }

static void s_alphamap_setup(dctx *c)
{
    int W=20+c->v[0]%30+((c->v[2]&4)?110:0); surf_make(c,W,4,(c->v[1]&1)?PIXMAN_a8r8g8b8:PIXMAN_a2r10g10b10);
    c->aux=img_rand(PIXMAN_a8,W,4); sv_add(c,c->aux); pixman_image_set_alpha_map(c->dst,c->aux,0,0);
    c->src=img_rand(PIXMAN_a8r8g8b8,W,4);
    if (c->v[1]&2) { c->aux2=img_rand(PIXMAN_a8,W,4); pixman_image_set_alpha_map(c->src,c->aux2,0,0); }
    c->op=PIXMAN_OP_OVER; permit_rect(c,0,0,W,4);
}
static int s_alphamap_call(dctx *c){ AF_CALL(pixman_image_composite32(c->op,c->src,NULL,c->dst,0,0,0,0,0,0,c->W,c->H)); return -1; }

static void s_fillrects_setup(dctx *c)
{
    int comp=c->v[1]&1; int W= comp?540+c->v[0]%40:60+c->v[0]%40; surf_make(c,W,12,comp?PIXMAN_a2r10g10b10:PIXMAN_a8r8g8b8);
    if (c->v[1]&2) { set_multi_clip(c,c->dst,3); }
    c->status=1; permit_rect(c,0,0,W,12); if (c->v[1]&2) pixman_region32_intersect(&c->permit,&c->permit,&c->clip32);
}
static int s_fillrects_call(dctx *c)
{
    pixman_rectangle16_t r[12]; int n=7+c->v[2]%5; int comp=c->v[1]&1;
    for (int i=0;i<n;i++){ r[i].x= comp?0:(i*7)%(c->W-20); r[i].y=i; r[i].width= comp? c->W : 3+i; r[i].height=1; }
    pixman_color_t col={0x9000,0x3000,0x6000,comp?0x8000:0xffff}; int ret;
    AF_CALL(ret=pixman_image_fill_rectangles(comp?PIXMAN_OP_OVER:PIXMAN_OP_SRC,c->dst,&col,n,r));
    return ret;
}

static void mk_traps(dctx *c,pixman_trapezoid_t *t,int n)
{
    for (int i=0;i<n;i++){ int x0=2+i*9, y0=1+i%3;
        t[i].top=pixman_int_to_fixed(y0)+0x4000; t[i].bottom=pixman_int_to_fixed(y0+6+i%4);
        t[i].left.p1.x=pixman_int_to_fixed(x0); t[i].left.p1.y=t[i].top; t[i].left.p2.x=pixman_int_to_fixed(x0+2); t[i].left.p2.y=t[i].bottom;
        t[i].right.p1.x=pixman_int_to_fixed(x0+7)+0x8000; t[i].right.p1.y=t[i].top; t[i].right.p2.x=pixman_int_to_fixed(x0+5); t[i].right.p2.y=t[i].bottom; }
    (void)c;
}
static void s_traps_setup(dctx *c)
{
    surf_make(c,48,14,(c->v[1]&1)?PIXMAN_a8r8g8b8:PIXMAN_x8r8g8b8);
    pixman_color_t col={0xffff,0x2000,0x8000,(c->v[1]&2)?0xffff:0xa000}; c->src=pixman_image_create_solid_fill(&col);
    if (c->v[1]&4) c->src=(pixman_image_unref(c->src),img_rand(PIXMAN_a8r8g8b8,64,20));
    c->op=(c->v[1]&8)?PIXMAN_OP_ADD:PIXMAN_OP_OVER; permit_rect(c,0,0,48,14);
}
static int s_traps_call(dctx *c)
{
    pixman_trapezoid_t t[4]; mk_traps(c,t,4);
    pixman_triangle_t tri[2]={{{pixman_int_to_fixed(3),pixman_int_to_fixed(1)},{pixman_int_to_fixed(30),pixman_int_to_fixed(4)},{pixman_int_to_fixed(10),pixman_int_to_fixed(12)}},
                              {{pixman_int_to_fixed(40),pixman_int_to_fixed(2)},{pixman_int_to_fixed(44),pixman_int_to_fixed(13)},{pixman_int_to_fixed(20),pixman_int_to_fixed(9)}}};
    pixman_format_code_t mf=(c->v[2]&1)?PIXMAN_a8:PIXMAN_a1;
    switch (c->v[2]>>1&3){
    case 0: AF_CALL(pixman_composite_trapezoids(c->op,c->src,c->dst,mf,0,0,0,0,4,t)); break;
    case 1: AF_CALL(pixman_composite_triangles(c->op,c->src,c->dst,mf,0,0,0,0,2,tri)); break;
    case 2: if (c->v[2]&8) AF_CALL(pixman_add_triangles(c->aux,1,1,2,tri)); else AF_CALL(pixman_add_trapezoids(c->aux,0,0,4,t)); break;
    default:AF_CALL(pixman_composite_trapezoids(c->op,c->src,c->dst,mf,1,2,3,1,3,t)); break; }
    return -1;
}
static void s_traps_setup2(dctx *c){ s_traps_setup(c); /* add_* draw into an a8 image: make that the observed surface */
    if ((c->v[2]>>1&3)==2){ c->aux=pixman_image_create_bits(PIXMAN_a8,48,14,(uint32_t*)(c->buf+GUARD*c->stride+c->padl),c->stride*4); } }

static void s_glyphs_setup(dctx *c)
{
    surf_make(c,64,20,PIXMAN_a8r8g8b8);
    pixman_color_t col={0x1000,0xffff,0x8000,0xe000}; c->src=pixman_image_create_solid_fill(&col);
    c->gc=pixman_glyph_cache_create(); pixman_glyph_cache_freeze(c->gc); c->frozen=1;
    c->nglyphs=5;
    for (int i=0;i<c->nglyphs;i++){ pixman_image_t *g=img_rand((c->v[1]&1)?PIXMAN_a8:PIXMAN_a8r8g8b8,6+i,7); const void *gl=pixman_glyph_cache_insert(c->gc,(void*)7,(void*)(intptr_t)(i+1),1,1,g); pixman_image_unref(g);
        c->glyphs[i].x=4+i*9; c->glyphs[i].y=5+(i&1)*3; c->glyphs[i].glyph=gl; }
    c->op=PIXMAN_OP_OVER; permit_rect(c,0,0,64,20);
    c->strict = (c->v[2]&1)?1:0;   /* without a mask the glyphs are drawn one by one and overlap */
}
static int s_glyphs_call(dctx *c)
{
    if (c->v[2]&1) AF_CALL(pixman_composite_glyphs(c->op,c->src,c->dst,(c->v[1]&1)?PIXMAN_a8:PIXMAN_a8r8g8b8,0,0,2,2,2,2,60,16,c->gc,c->nglyphs,c->glyphs));
    else AF_CALL(pixman_composite_glyphs_no_mask(c->op,c->src,c->dst,0,0,0,0,c->gc,c->nglyphs,c->glyphs));
    return -1;
}


/* masked composite_glyphs over runs of >= 2 same-format glyphs whose format differs from the mask
 * format (add_glyphs then needs the white solid source: the 3rd allocation of the call) */
static const pixman_format_code_t gl_fmt[]={PIXMAN_a1,PIXMAN_a8,PIXMAN_a4,PIXMAN_a8r8g8b8};
static void s_glyphsfmt_setup(dctx *c)
{
    surf_make(c,66,12,PIXMAN_a8r8g8b8);
    pixman_color_t col={0x2000,0xf000,0x7000,0xd000}; c->src=pixman_image_create_solid_fill(&col);
    pixman_format_code_t mf=(c->v[2]&1)?PIXMAN_a8:PIXMAN_a8r8g8b8;
    int fi=c->v[1]%4; if (gl_fmt[fi]==mf) fi=(fi+1)%4;
    pixman_format_code_t F=gl_fmt[fi], G=(c->v[1]&16)?mf:gl_fmt[(fi+1+((c->v[1]>>5)&1))%4];
    /* run lengths: F x a, G x b, F x 1 */
    int a=2+((c->v[1]>>2)&1), b=(c->v[1]>>3)&1 ? 2:1;
    c->gc=pixman_glyph_cache_create(); pixman_glyph_cache_freeze(c->gc); c->frozen=1;
    c->nglyphs=a+b+1; if (c->nglyphs>6) c->nglyphs=6;
    for (int i=0;i<c->nglyphs;i++){ pixman_format_code_t f=(i<a||i>=a+b)?F:G; pixman_image_t *g=img_rand(f,5+i%4,6+(i&1));
        const void *gl=pixman_glyph_cache_insert(c->gc,(void*)9,(void*)(intptr_t)(i+1),0,0,g); pixman_image_unref(g);
        c->glyphs[i].x=2+i*10; c->glyphs[i].y=2+(i&1); c->glyphs[i].glyph=gl; }     /* boxes do not overlap */
    c->op=(c->v[2]&2)?PIXMAN_OP_OVER:PIXMAN_OP_ADD; permit_rect(c,0,0,66,12);
    c->aux2=NULL; c->x=mf;
}
static int s_glyphsfmt_call(dctx *c)
{
    AF_CALL(pixman_composite_glyphs(c->op,c->src,c->dst,(pixman_format_code_t)c->x,0,0,0,0,0,0,66,12,c->gc,c->nglyphs,c->glyphs));
    return -1;
}

/* post-failure history of the glyph cache: an insert under the failure schedule, then inserts past
 * the high-water mark, thaw (eviction walks the MRU list), lookups, drawing, removals, destroy.
 * Only in the white-box build (see the top of this file); HW/LW are its water marks. */
#ifdef PIXMAN_VERIF_GLYPH_HIGH_WATER
#define AF_HW PIXMAN_VERIF_GLYPH_HIGH_WATER
#define AF_LW PIXMAN_VERIF_GLYPH_LOW_WATER
#else
#define AF_HW 16384
#define AF_LW 8192
#endif
static void s_ghist_setup(dctx *c)
{
    surf_make(c,40,10,PIXMAN_a8r8g8b8);
    pixman_color_t col={0xffff,0x8000,0x1000,0xffff}; c->src=pixman_image_create_solid_fill(&col);
    c->aux=img_rand((c->v[1]&1)?PIXMAN_a8:PIXMAN_a8r8g8b8,4+c->v[0]%4,5);
    c->op=PIXMAN_OP_OVER; permit_rect(c,0,0,40,10); c->status=1; c->strict=0;
}
static int s_ghist_call(dctx *c)
{
    if (AF_HW>64) return 0;                       /* only with the small-table build */
    pixman_glyph_cache_t *gc=pixman_glyph_cache_create(); if(!gc) return 0;
    int before=(c->v[1]>>1)%3, fails=1+(c->v[2]&1), bad=0, key=1; const void *g;   /* at most 2+2+10 = 14 < HASH_SIZE-1 entries */
    pixman_glyph_cache_freeze(gc);
    for (int i=0;i<before;i++,key++) pixman_glyph_cache_insert(gc,(void*)5,(void*)(intptr_t)key,0,0,c->aux);
    int xk[2]; const void *xg[2];
    for (int i=0;i<fails;i++,key++){ AF_CALL(g=pixman_glyph_cache_insert(gc,(void*)5,(void*)(intptr_t)key,0,0,c->aux)); xk[i]=key; xg[i]=g;
        if (pixman_glyph_cache_lookup(gc,(void*)5,(void*)(intptr_t)key)!=g) bad=1; }   /* NULL <=> not in the cache */
    if ((c->v[2]>>1)&1) { pixman_glyph_cache_thaw(gc); pixman_glyph_cache_freeze(gc); }
    int more=AF_HW+1+(c->v[2]>>2)%2;
    for (int i=0;i<more;i++,key++) if (!pixman_glyph_cache_insert(gc,(void*)5,(void*)(intptr_t)key,0,0,c->aux)) bad=1;
    int nin=0; for (int k=1;k<key;k++) if (pixman_glyph_cache_lookup(gc,(void*)5,(void*)(intptr_t)k)) nin++;
    int expect=before+more; for (int i=0;i<fails;i++) if (xg[i]) expect++;
    if (nin!=expect) bad=1;
    pixman_glyph_cache_thaw(gc);                  /* above the high-water mark: evicts down to the low one */
    nin=0; const void *last=NULL; int lastk=0;
    for (int k=1;k<key;k++) { const void *q=pixman_glyph_cache_lookup(gc,(void*)5,(void*)(intptr_t)k); if (q){ nin++; last=q; lastk=k; } }
    if (nin!=AF_LW) bad=1;
    pixman_glyph_cache_freeze(gc);
    if (last) { pixman_glyph_t gl={3,2,last}; pixman_composite_glyphs_no_mask(c->op,c->src,c->dst,0,0,0,0,gc,1,&gl); }
    for (int k=1;k<key;k+=2) pixman_glyph_cache_remove(gc,(void*)5,(void*)(intptr_t)k);
    if (lastk && !(lastk&1) && pixman_glyph_cache_lookup(gc,(void*)5,(void*)(intptr_t)lastk)!=last) bad=1;
    for (int i=0;i<3;i++,key++) if (!pixman_glyph_cache_insert(gc,(void*)5,(void*)(intptr_t)key,0,0,c->aux)) bad=1;
    pixman_glyph_cache_thaw(gc);
    pixman_glyph_cache_destroy(gc);
    (void)xk;
    return bad?2:1;
}

/* glyph insertion is the call under test; drawing it afterwards shows what was stored */
static void s_ginsert_setup(dctx *c)
{
    int wide=c->v[1]&1; int W= wide?560+c->v[0]%60:30+c->v[0]%20;
    surf_make(c,W+4,6,PIXMAN_a8r8g8b8);
    pixman_color_t col={0xffff,0xffff,0xffff,0xffff}; c->src=pixman_image_create_solid_fill(&col);
    c->aux=img_rand(wide?PIXMAN_a2r10g10b10:((c->v[1]&2)?PIXMAN_a8:PIXMAN_a8r8g8b8),W,5);
    c->gc=pixman_glyph_cache_create(); c->op=PIXMAN_OP_OVER; permit_rect(c,0,0,W+4,6); c->status=1;
}
static int s_ginsert_call(dctx *c)
{
    const void *g; pixman_glyph_cache_freeze(c->gc);
    AF_CALL(g=pixman_glyph_cache_insert(c->gc,(void*)3,(void*)4,0,0,c->aux));
    if (g) { pixman_glyph_t gl={1,0,g}; pixman_composite_glyphs_no_mask(c->op,c->src,c->dst,0,0,0,0,c->gc,1,&gl); pixman_glyph_cache_remove(c->gc,(void*)3,(void*)4); }
    pixman_glyph_cache_thaw(c->gc);
    return g!=NULL;
}

/* setters / status functions followed by a drawing that shows the object is usable */
static void s_clip_setup(dctx *c)
{
    surf_make(c,70,6,PIXMAN_a8r8g8b8); c->src=img_rand(PIXMAN_a8r8g8b8,70,6); c->op=PIXMAN_OP_SRC; c->status=1;
    permit_rect(c,0,0,70,6);
    pixman_box32_t b[24]; pixman_box16_t b16[24]; int n=(c->v[1]&1)?20:5;
    for (int i=0;i<n;i++){ b[i].x1=b16[i].x1=i*3; b[i].x2=b16[i].x2=i*3+2; b[i].y1=b16[i].y1=i&1; b[i].y2=b16[i].y2=6-(i&1); }
    pixman_region32_init_rects(&c->clip32,b,n); pixman_region_init_rects(&c->clip16,b16,n);
    if (c->v[1]&2) { pixman_region32_t old; pixman_region32_init_rect(&old,1,1,60,4); pixman_image_set_clip_region32(c->dst,&old); pixman_region32_fini(&old); }
}
static int s_clip_call(dctx *c)
{
    int ret;
    if (c->v[2]&1) AF_CALL(ret=pixman_image_set_clip_region(c->dst,&c->clip16));
    else AF_CALL(ret=pixman_image_set_clip_region32(c->dst,&c->clip32));
    pixman_image_composite32(c->op,c->src,NULL,c->dst,0,0,0,0,0,0,70,6);
    if ((c->v[1]&2)) { pixman_region32_t old; pixman_region32_init_rect(&old,1,1,60,4); pixman_image_set_clip_region32(c->dst,&old); pixman_region32_fini(&old); }
    else pixman_image_set_clip_region32(c->dst,NULL);
    return ret;
}

static void s_sepconv_setup(dctx *c)
{
    int W=40+c->v[0]%20; surf_make(c,W,5,PIXMAN_a8r8g8b8); c->src=img_rand(PIXMAN_a8r8g8b8,2*W,12);
    pixman_transform_t t; pixman_transform_init_scale(&t,pixman_int_to_fixed(2),pixman_int_to_fixed(2)); pixman_image_set_transform(c->src,&t);
    c->op=PIXMAN_OP_SRC; permit_rect(c,0,0,W,5); c->status=1;
}
static int s_sepconv_call(dctx *c)
{
    int n=0,ret=0; pixman_fixed_t *p;
    AF_CALL(p=pixman_filter_create_separable_convolution(&n,pixman_int_to_fixed(2),pixman_int_to_fixed(2),PIXMAN_KERNEL_LINEAR,PIXMAN_KERNEL_LINEAR,PIXMAN_KERNEL_BOX,PIXMAN_KERNEL_BOX,2,2));
    if (p) { AF_CALL(ret=pixman_image_set_filter(c->src,PIXMAN_FILTER_SEPARABLE_CONVOLUTION,p,n)); free(p); }
    if (ret) { AF_CALL(pixman_image_composite32(c->op,c->src,NULL,c->dst,0,0,0,0,0,0,c->W,c->H)); }
    pixman_image_set_filter(c->src,PIXMAN_FILTER_NEAREST,NULL,0);
    return ret;
}

static void s_region16_setup(dctx *c){ surf_make(c,40,8,PIXMAN_a8r8g8b8); c->src=img_rand(PIXMAN_a8r8g8b8,40,8); set_multi_clip(c,c->dst,4+c->v[1]%20); c->status=1; permit_rect(c,0,0,40,8); c->strict=0; }
static int s_region16_call(dctx *c)
{
    pixman_region16_t r; pixman_region_init(&r); int ret;
    AF_CALL(ret=pixman_compute_composite_region(&r,c->src,NULL,c->dst,0,0,0,0,1,0,38,8));
    if (ret && !pixman_region_selfcheck(&r)) ret=2;
    pixman_region_fini(&r);
    return ret;
}

typedef struct { const char *name; void (*setup)(dctx*); int (*call)(dctx*); int strict; } scen_t;
static const scen_t scens[]={
    {"general",s_general_setup,s_general_call,1},
    {"xform",s_xform_setup,s_xform_call,1},
    {"gradient",s_gradient_setup,s_gradient_call,1},
    {"alphamap",s_alphamap_setup,s_alphamap_call,1},
    {"fillrects",s_fillrects_setup,s_fillrects_call,1},
    {"traps",s_traps_setup2,s_traps_call,1},
    {"glyphs",s_glyphs_setup,s_glyphs_call,1},
    {"glyph_insert",s_ginsert_setup,s_ginsert_call,1},
    {"clip",s_clip_setup,s_clip_call,0},
    {"sepconv",s_sepconv_setup,s_sepconv_call,1},
    {"region16",s_region16_setup,s_region16_call,0},
    {"glyphs_fmt",s_glyphsfmt_setup,s_glyphsfmt_call,1},
    {"glyph_hist",s_ghist_setup,s_ghist_call,0},
};
#define NSCEN ((int)(sizeof scens/sizeof scens[0]))

static int exec_dr(char **tok,int nt,char *out,size_t cap,char *orc,size_t ocap)
{
    if (nt!=7) return 0;
    const scen_t *s=NULL; for (int i=0;i<NSCEN;i++) if (!strcmp(scens[i].name,tok[3])) s=&scens[i];
    if (!s) return 0;
    static dctx C; dctx *c=&C; memset(c,0,sizeof *c); int q=0; orc[0]=0;
    c->v[0]=atoi(tok[4]); c->v[1]=atoi(tok[5]); c->v[2]=atoi(tok[6]); c->strict=s->strict; c->name=s->name;
    lrng=0x1234567ULL*(uint64_t)(c->v[0]+1)+(uint64_t)c->v[1]*7919+(uint64_t)c->v[2];
    pixman_region32_init(&c->clip32); pixman_region_init(&c->clip16);
    s->setup(c);
    /* 1. reference result without failure */
    af_enable=0; int ret0=s->call(c); memcpy(c->want,c->buf,c->words*4); unsigned want_sum=2166136261u; for (size_t i=0;i<c->words;i++){ want_sum^=c->want[i]; want_sum*=16777619u; } for (int i=0;i<c->nsv;i++) for (size_t j=0;j<c->sv_len[i];j++){ want_sum^=((unsigned char*)c->sv_ptr[i])[j]; want_sum*=16777619u; } restore(c);
    /* 2. the call under the failure schedule */
    af_enable=1; af_arm(tok[1],atol(tok[2])); int base=af_nlive;
    int ret=s->call(c); long req=af_req; (void)base;
    /* 3. classify */
    long n_new=0,n_old=0,n_other=0,n_out=0,n_in=0;
    for (int y=-GUARD;y<c->H+GUARD;y++) for (int x=-c->padl;x<c->stride-c->padl;x++){
        size_t i=(size_t)(y+GUARD)*c->stride+c->padl+x; uint32_t g=c->buf[i];
        int inside = y>=0&&y<c->H&&x>=0&&x<c->W && pixman_region32_contains_point(&c->permit,x,y,NULL);
        if (!inside){ if (g!=c->orig[i]) n_out++; continue; }
        n_in++;
        if (g==c->want[i]) n_new++; else if (g==c->orig[i]) n_old++; else n_other++;
    }
    const char *outcome = n_new==n_in ? "complete" : (n_other==0 && n_new+n_old==n_in && memcmp(c->buf,c->orig,c->words*4)==0) ? "skipped" : n_other==0 ? "partial" : "other";
    if (n_out) ORC2("|%ld word(s) outside the permitted region were modified",n_out);
    if (c->strict && n_other) ORC2("|%ld pixel(s) are neither the old value nor the correctly drawn one",n_other);
    if (c->status && ret==1 && strcmp(outcome,"complete")) ORC2("|status result reports success but the work was %s",outcome);
    if (c->status && ret==2) ORC2("|status result reports success but the output is malformed");
    /* 4. the objects are still usable: the same call without failure gives the reference result */
    restore(c); af_enable=0; int ret2=s->call(c);
    if (memcmp(c->buf,c->want,c->words*4) || ret2!=ret0) ORC2("|after the failed call the same call does not reproduce the reference result");
    /* 5. destroy everything */
    if (c->src) pixman_image_unref(c->src);
    if (c->mask) pixman_image_unref(c->mask);
    if (c->dst) pixman_image_unref(c->dst);
    if (c->aux) pixman_image_unref(c->aux);
    if (c->aux2) pixman_image_unref(c->aux2);
    if (c->gc) { if (c->frozen) pixman_glyph_cache_thaw(c->gc); pixman_glyph_cache_destroy(c->gc); }
    pixman_region32_fini(&c->clip32); pixman_region_fini(&c->clip16); if (c->have_permit) pixman_region32_fini(&c->permit);
    if (af_nlive) ORC2("|%d block(s) still live after every object was destroyed (leak)",af_nlive);
    if (af_bad) ORC2("|free/realloc of a block that is not live");
    snprintf(out,cap,"%d %s ; req=%ld new=%ld old=%ld other=%ld outside=%ld fin=%d ref=%08x",ret,outcome,req,n_new,n_old,n_other,n_out,af_nlive,want_sum);
    return 1;
}

/* ------------------------------------------------------------------ running one request in a child */
static int split(char *line, char **tok, int max){ int n=0; char *s=strtok(line," \t\r\n"); while(s&&n<max){tok[n++]=s; s=strtok(NULL," \t\r\n");} return n; }
#define LINEMAX (1<<18)
static char g_out[LINEMAX], g_orc[1<<14];

static void child_run(const char *line,int fd)
{
    static char buf[LINEMAX]; static char *tok[1<<15];
    strncpy(buf,line,LINEMAX-1); int nt=split(buf,tok,1<<15); int ok=0;
    g_out[0]=0; g_orc[0]=0;
    af_tracking=1; af_nlive=0; af_ndead=0; af_bad=0;
    if (nt>=6 && !strcmp(tok[0],"rg")) { int bits=atoi(tok[1]); if (bits==16) ok=exec_rg_16(tok,nt,g_out,LINEMAX,g_orc,sizeof g_orc); else if (bits==32) ok=exec_rg_32(tok,nt,g_out,LINEMAX,g_orc,sizeof g_orc); }
    else if (nt>=1 && !strcmp(tok[0],"ct")) ok=exec_ct(tok,nt,g_out,LINEMAX,g_orc,sizeof g_orc);
    else if (nt>=1 && !strcmp(tok[0],"st")) ok=exec_st(tok,nt,g_out,LINEMAX,g_orc,sizeof g_orc);
    else if (nt>=1 && !strcmp(tok[0],"dr")) ok=exec_dr(tok,nt,g_out,LINEMAX,g_orc,sizeof g_orc);
    af_tracking=0; af_armed=0;
    if (!ok) strcpy(g_out,"bad-op");
    size_t n=strlen(g_out); g_out[n]='\n'; (void)!write(fd,g_out,n+1);
    n=strlen(g_orc); g_orc[n]='\n'; (void)!write(fd,g_orc,n+1);
}

/* returns reply in g_out (no newline) and oracle text in g_orc */
static void run_forked(const char *line)
{
    int pf[2]; if (pipe(pf)) { perror("pipe"); exit(2); }
    fflush(NULL);
    pid_t pid=fork();
    if (pid==0){ close(pf[0]); { const char *e=getenv("AF_CPU"); int cs=e?atoi(e):1; if(cs<1)cs=1; struct rlimit rl={cs,cs+1}; setrlimit(RLIMIT_CPU,&rl); alarm(10*cs); } child_run(line,pf[1]); _exit(0); }
    close(pf[1]);
    static char rb[LINEMAX+(1<<14)+8]; size_t got=0; ssize_t r;
    while ((r=read(pf[0],rb+got,sizeof rb-1-got))>0) got+=r;
    rb[got]=0; close(pf[0]);
    int st=0; waitpid(pid,&st,0);
    g_out[0]=0; g_orc[0]=0;
    if (WIFSIGNALED(st) || (WIFEXITED(st)&&WEXITSTATUS(st)!=0)) {
        snprintf(g_out,LINEMAX,"CRASH %s=%d", WIFSIGNALED(st)?"signal":"exit", WIFSIGNALED(st)?WTERMSIG(st):WEXITSTATUS(st));
        snprintf(g_orc,sizeof g_orc,"|the process died (%s %d)", WIFSIGNALED(st)?"signal":"exit status", WIFSIGNALED(st)?WTERMSIG(st):WEXITSTATUS(st));
        return;
    }
    char *nl=strchr(rb,'\n'); if (!nl) { strcpy(g_out,"CRASH no-output"); strcpy(g_orc,"|no output"); return; }
    *nl=0; strncpy(g_out,rb,LINEMAX-1); char *o=nl+1; char *nl2=strchr(o,'\n'); if (nl2) *nl2=0; strncpy(g_orc,o,sizeof g_orc-1);
}

static long parse_req(const char *reply){ const char *p=strstr(reply,"req="); return p?atol(p+4):-1; }
/* result part of an rg reply without the size token: "<ret> <K> <size> rest ; ..." */
static void strip_size(const char *reply,char *o,size_t cap)
{
    const char *semi=strstr(reply," ; "); size_t n=semi?(size_t)(semi-reply):strlen(reply); if (n>=cap) n=cap-1;
    char tmp[LINEMAX]; memcpy(tmp,reply,n); tmp[n]=0;
    /* tokens: ret K size ... */
    char *a=strchr(tmp,' '); if(!a){ strcpy(o,tmp); return; } char *b=strchr(a+1,' '); if(!b){ strcpy(o,tmp); return; } char *c=strchr(b+1,' '); if(!c){ strcpy(o,tmp); return; }
    *b=0; snprintf(o,cap,"%s %s",tmp,c+1);
}

/* ------------------------------------------------------------------ generator */
static FILE *f_ops_m,*f_impl_m,*f_ops_d,*f_impl_d,*f_orc; static long line_m,line_d;

/* run base line (mode n), then every k in both modes.  `tmpl` has "%s %ld" where mode and k go. */
static void enumerate(const char *tmpl,int is_model)
{
    static char line[LINEMAX], ref[LINEMAX], a[LINEMAX], b[LINEMAX];
    FILE *fo=is_model?f_ops_m:f_ops_d, *fi=is_model?f_impl_m:f_impl_d; long *ln=is_model?&line_m:&line_d;
    snprintf(line,LINEMAX,tmpl,"n",0L);
    run_forked(line); fprintf(fo,"%s\n",line); fprintf(fi,"%s\n",g_out); (*ln)++;
    if (g_orc[0]) fprintf(f_orc,"ORACLE %c %ld %s\n",is_model?'m':'d',*ln,g_orc);
    long n=parse_req(g_out); strncpy(ref,g_out,LINEMAX-1);
    if (n<0) return;
    if (n>400) n=400;
    for (long k=1;k<=n;k++) for (int m=0;m<2;m++) {
        if (n>40 && k>12 && k<n-6 && (k%7)) continue;          /* thin out very long request sequences */
        snprintf(line,LINEMAX,tmpl,m?"p":"s",k);
        run_forked(line); fprintf(fo,"%s\n",line); fprintf(fi,"%s\n",g_out); (*ln)++;
        if (g_orc[0]) fprintf(f_orc,"ORACLE %c %ld %s\n",is_model?'m':'d',*ln,g_orc);
        if (!strncmp(line,"rg ",3) && strncmp(g_out,"CRASH",5)) {
            /* success under a failure schedule must give the failure-free result (void ops: or broken) */
            strip_size(g_out,a,LINEMAX); strip_size(ref,b,LINEMAX);
            int isvoid=g_out[0]=='v', broken=g_out[2]=='B';
            int conv = strstr(line," to16 ")||strstr(line," to32 ");
            if (((g_out[0]=='1') || (isvoid && !broken)) && strcmp(a,b)) fprintf(f_orc,"ORACLE m %ld |success under a failure schedule but the result differs from the failure-free result\n",*ln);
            if (g_out[0]=='0' && ref[0]=='0' && !conv && strcmp(a,b)) fprintf(f_orc,"ORACLE m %ld |failure-free FALSE result changed under a failure schedule\n",*ln);
        }
    }
}

/* serialise a region32 built by the library, with a chosen capacity */
static int ser_with_size(char *o,size_t cap,pixman_region32_t *r,long size)
{
    int n; pixman_box32_t *b=pixman_region32_rectangles(r,&n);
    char k = !r->data?'S': r->data==broken_ptr_32?'B': r->data->size==0?'E':'H';
    if (k!='H') { return snprintf(o,cap,"%c 0 %d %d %d %d 0",k,r->extents.x1,r->extents.y1,r->extents.x2,r->extents.y2); }
    if (size<n) size=n;
    int p=snprintf(o,cap,"H %ld %d %d %d %d %d",size,r->extents.x1,r->extents.y1,r->extents.x2,r->extents.y2,n);
    for (int i=0;i<n;i++) p+=snprintf(o+p,cap-p," %d %d %d %d",b[i].x1,b[i].y1,b[i].x2,b[i].y2);
    return p;
}
static int coord(int span){ int c=rng_n(100); if (c<60) return rng_range(-2,span); if (c<80) return rng_range(-2,3)*5; return rng_range(-30,60); }
static void rand_region(pixman_region32_t *r,int kind,int big)
{
    pixman_box32_t b[64]; int n=0;
    switch (kind) {
    case 0: pixman_region32_init(r); return;
    case 1: pixman_region32_init_rect(r,coord(12),coord(12),1+rng_n(15),1+rng_n(15)); return;
    case 2: { n=2+rng_n(big?30:6); for(int i=0;i<n;i++){ b[i].x1=coord(20); b[i].y1=coord(20); b[i].x2=b[i].x1+1+rng_n(9); b[i].y2=b[i].y1+1+rng_n(9);} break; }
    case 3: { n=2+rng_n(big?40:8); int w=1+rng_n(3); for(int i=0;i<n;i++){ b[i].x1=i*(w+1+rng_n(2)); b[i].x2=b[i].x1+w; b[i].y1=-1; b[i].y2=2*n+5; } break; }   /* vertical stripes */
    case 4: { n=2+rng_n(big?40:8); int h=1+rng_n(3); for(int i=0;i<n;i++){ b[i].y1=i*(h+1+rng_n(2)); b[i].y2=b[i].y1+h; b[i].x1=-1; b[i].x2=2*n+5; } break; }   /* horizontal stripes */
    default:{ n=2+rng_n(5); for(int i=0;i<n;i++){ b[i].x1=i; b[i].y1=i*2; b[i].x2=30-i; b[i].y2=i*2+2; } break; }                                             /* pyramid: one box per band */
    }
    pixman_region32_init_rects(r,b,n);
}
static long pick_size(int n){ switch(rng_n(6)){ case 0: return n; case 1: return n+1; case 2: return 2*n; case 3: return 2*n+3; case 4: return 51+rng_n(150); default: return n+rng_n(8);} }
static int obj_text(char *o,size_t cap)
{
    int c=rng_n(100); pixman_region32_t r;
    if (c<6) return snprintf(o,cap,"B 0 0 0 0 0 0");
    if (c<9) return snprintf(o,cap,"B 0 %d %d %d %d 0",3,4,3,4);
    int kind = c<16?0: c<30?1: 2+rng_n(4);
    rand_region(&r,kind,rng_chance(15));
    int n=pixman_region32_n_rects(&r); int p=ser_with_size(o,cap,&r,pick_size(n)); pixman_region32_fini(&r); return p;
}

static void gen_region(int bits)
{
    static char t[LINEMAX], o0[1<<16], o1[1<<16], o2[1<<16];
    int c=rng_n(100);
    if (c<55) {
        const char *op[]={"union","intersect","subtract"}; const char *o=op[rng_n(3)];
        int al=rng_n(10);
        obj_text(o0,sizeof o0); obj_text(o1,sizeof o1); obj_text(o2,sizeof o2);
        if (al<4) snprintf(t,LINEMAX,"rg %d %%s %%ld %s 3 %s %s %s 0 1 2",bits,o,o0,o1,o2);
        else if (al<6) snprintf(t,LINEMAX,"rg %d %%s %%ld %s 2 %s %s 0 0 1",bits,o,o0,o1);
        else if (al<8) snprintf(t,LINEMAX,"rg %d %%s %%ld %s 2 %s %s 1 0 1",bits,o,o0,o1);
        else if (al<9) snprintf(t,LINEMAX,"rg %d %%s %%ld %s 2 %s %s 0 1 1",bits,o,o0,o1);
        else snprintf(t,LINEMAX,"rg %d %%s %%ld %s 1 %s 0 0 0",bits,o,o0);
    } else if (c<63) {
        obj_text(o0,sizeof o0); obj_text(o1,sizeof o1); int same=rng_chance(30);
        if (same) { int x=coord(10),y=coord(10); snprintf(t,LINEMAX,"rg %d %%s %%ld inverse 1 %s 0 0 %d %d %d %d",bits,o0,x,y,x+1+rng_n(30),y+1+rng_n(30)); }
        else { int x=coord(10),y=coord(10); snprintf(t,LINEMAX,"rg %d %%s %%ld inverse 2 %s %s 0 1 %d %d %d %d",bits,o0,o1,x,y,x+1+rng_n(30),y+1+rng_n(30)); }
    } else if (c<75) {
        obj_text(o0,sizeof o0); obj_text(o1,sizeof o1); int same=rng_chance(40); const char *o=rng_chance(50)?"union_rect":"intersect_rect";
        int w=rng_chance(10)?0:1+rng_n(25), h=rng_chance(10)?0:1+rng_n(25);
        if (same) snprintf(t,LINEMAX,"rg %d %%s %%ld %s 1 %s 0 0 %d %d %d %d",bits,o,o0,coord(10),coord(10),w,h);
        else snprintf(t,LINEMAX,"rg %d %%s %%ld %s 2 %s %s 0 1 %d %d %d %d",bits,o,o0,o1,coord(10),coord(10),w,h);
    } else if (c<83) {
        obj_text(o0,sizeof o0); obj_text(o1,sizeof o1);
        if (rng_chance(15)) snprintf(t,LINEMAX,"rg %d %%s %%ld copy 1 %s 0 0",bits,o0);
        else snprintf(t,LINEMAX,"rg %d %%s %%ld copy 2 %s %s 0 1",bits,o0,o1);
    } else if (c<91) {
        int n = rng_chance(12) ? 66+rng_n(80) : rng_n(14); int p=snprintf(t,LINEMAX,"rg %d %%s %%ld init_rects 0 %d",bits,n);
        int stair=n>60;
        for (int i=0;i<n;i++){ int x=stair?i:coord(20),y=stair?i:coord(20); int w=stair?100:(rng_chance(8)?0:1+rng_n(9)),h=stair?100:(rng_chance(8)?-1:1+rng_n(9)); p+=snprintf(t+p,LINEMAX-p," %d %d %d %d",x,y,x+w,y+h); }
    } else if (c<94) {
        obj_text(o0,sizeof o0); int far=rng_chance(50); int lim= bits==16?32767:2147483647;
        snprintf(t,LINEMAX,"rg %d %%s %%ld translate 1 %s 0 %d %d",bits,o0, far?(rng_chance(50)?lim-rng_n(20):-lim+rng_n(20)):coord(30), far&&rng_chance(50)?lim-rng_n(9):coord(30));
    } else if (c<97) {
        int w=1+rng_n(70),h=1+rng_n(9); int p=snprintf(t,LINEMAX,"rg %d %%s %%ld from_image 0 %d %d",bits,w,h);
        int dens=10+rng_n(80); static char row[128]; int rep=0;
        for (int y=0;y<h;y++){ if (!(rep && rng_chance(40))) { for(int x=0;x<w;x++) row[x]=rng_chance(dens)?'1':'0'; if (rng_chance(30)) for(int x=0;x<w;x++) row[x]= (x/3)%2?'1':'0'; row[w]=0; } rep=1; p+=snprintf(t+p,LINEMAX-p," %s",row); }
    } else if (c<99) {
        obj_text(o0,sizeof o0);
        pixman_region32_t r; rand_region(&r,rng_chance(50)?3:2+rng_n(4),rng_chance(60)); ser_with_size(o1,sizeof o1,&r,pixman_region32_n_rects(&r)); pixman_region32_fini(&r);
        snprintf(t,LINEMAX,"rg %d %%s %%ld %s 2 %s %s 0 1",bits,bits==16?"to16":"to32",o0,o1);
    } else {
        obj_text(o0,sizeof o0); snprintf(t,LINEMAX,"rg %d %%s %%ld fini 1 %s 0",bits,o0);
    }
    enumerate(t,1);
}

/* a few large structured cases: growth past 500 rectangles, DOWNSIZE, ri[] array growth */
static void gen_fixed(void)
{
    static char t[LINEMAX], o1[1<<17], o2[1<<17]; pixman_box32_t b[64]; pixman_region32_t r;
    for (int n=24;n<=42;n+=18) {
        for(int i=0;i<n;i++){ b[i].x1=3*i; b[i].x2=3*i+2; b[i].y1=0; b[i].y2=3*n; } pixman_region32_init_rects(&r,b,n); ser_with_size(o1,sizeof o1,&r,n); pixman_region32_fini(&r);
        for(int i=0;i<n;i++){ b[i].y1=3*i; b[i].y2=3*i+2; b[i].x1=0; b[i].x2=3*n; } pixman_region32_init_rects(&r,b,n); ser_with_size(o2,sizeof o2,&r,n); pixman_region32_fini(&r);
        snprintf(t,LINEMAX,"rg 32 %%s %%ld intersect 3 E 0 0 0 0 0 0 %s %s 0 1 2",o1,o2); enumerate(t,1);
        snprintf(t,LINEMAX,"rg 16 %%s %%ld subtract 2 %s %s 0 0 1",o1,o2); enumerate(t,1);
        snprintf(t,LINEMAX,"rg 32 %%s %%ld union 2 %s %s 1 0 1",o1,o2); enumerate(t,1);
    }
    /* destination with a large block and a small result: DOWNSIZE's realloc is a request too */
    snprintf(t,LINEMAX,"rg 32 %%s %%ld union 3 H 120 0 0 9 9 2 0 0 4 4 5 5 9 9 H 2 0 0 3 9 2 0 0 3 3 1 6 2 9 H 3 10 0 12 9 2 10 0 12 2 10 5 11 9 0 1 2"); enumerate(t,1);
    snprintf(t,LINEMAX,"rg 16 %%s %%ld subtract 2 H 200 0 0 9 9 2 0 0 4 4 5 5 9 9 H 2 0 0 3 9 2 0 0 3 3 1 6 2 9 0 0 1"); enumerate(t,1);
    /* regression 663c485: a broken region translated out of range stays broken */
    snprintf(t,LINEMAX,"rg 32 %%s %%ld translate 1 B 0 0 0 0 0 0 0 2147483647 2147483647"); enumerate(t,1);
    snprintf(t,LINEMAX,"rg 16 %%s %%ld translate 1 B 0 0 0 0 0 0 0 40000 -40000"); enumerate(t,1);
}

static const char *ctors[]={"bits_own","bits_own_noclear","bits_user","solid","gradient","glyph_cache","glyph_insert","filter"};
static const char *setters[]={"transform_new","transform_reuse","filter_new","filter_replace"};

int main(int argc,char **argv)
{
    capture_static_16(); capture_static_32();
    if (argc>=9 && !strcmp(argv[1],"gen")) {
        rng_seed(strtoull(argv[2],0,10)); long n=atol(argv[3]);
        f_ops_m=fopen(argv[4],"w"); f_impl_m=fopen(argv[5],"w"); f_ops_d=fopen(argv[6],"w"); f_impl_d=fopen(argv[7],"w"); f_orc=fopen(argv[8],"w");
        if(!f_ops_m||!f_impl_m||!f_ops_d||!f_impl_d||!f_orc) return 2;
        static char t[LINEMAX];
        gen_fixed();
        for (int i=0;i<8;i++) for (int v=0;v<6;v++){ snprintf(t,LINEMAX,"ct %%s %%ld %s %d",ctors[i],v+6*rng_n(50)); enumerate(t,1); }
        for (int i=0;i<4;i++) for (int v=0;v<3;v++){ snprintf(t,LINEMAX,"st %%s %%ld %s %d",setters[i],rng_n(100)); enumerate(t,1); }
        for (long i=0;i<n;i++) gen_region(rng_chance(50)?16:32);
        int ns=NSCEN-1;                               /* glyph_hist runs from `genhist` (small-table build) */
        long nd = n/12+ns*2;
        for (long i=0;i<nd;i++){ int s= i<ns*2 ? (int)(i%ns) : rng_n(ns); snprintf(t,LINEMAX,"dr %%s %%ld %s %d %d %d",scens[s].name,rng_n(1000),rng_n(64),rng_n(64)); enumerate(t,0); }
        fclose(f_ops_m);fclose(f_impl_m);fclose(f_ops_d);fclose(f_impl_d);fclose(f_orc);
        return 0;
    }
    if (argc>=7 && !strcmp(argv[1],"genhist")) {
        /* allocfail genhist <seed> <n> <ops_d> <impl_d> <oracle>: cache histories after a failed insert */
        rng_seed(strtoull(argv[2],0,10)); long n=atol(argv[3]);
        f_ops_d=fopen(argv[4],"w"); f_impl_d=fopen(argv[5],"w"); f_orc=fopen(argv[6],"w"); if(!f_ops_d||!f_impl_d||!f_orc) return 2;
        static char t[LINEMAX];
        for (long i=0;i<n;i++){ snprintf(t,LINEMAX,"dr %%s %%ld glyph_hist %d %d %d",rng_n(1000),(int)(i%8),(int)((i/8+rng_n(3)*4)%12)); enumerate(t,0); }
        fclose(f_ops_d);fclose(f_impl_d);fclose(f_orc); return 0;
    }
    if (argc>=4 && !strcmp(argv[1],"exec")) {
        FILE *fi=fopen(argv[2],"r"),*fr=fopen(argv[3],"w"); if(!fi||!fr) return 2;
        FILE *fo= argc>=5?fopen(argv[4],"w"):NULL; static char buf[LINEMAX]; long ln=0;
        while (fgets(buf,sizeof buf,fi)) { ln++; size_t l=strlen(buf); while(l&&(buf[l-1]=='\n'||buf[l-1]=='\r')) buf[--l]=0; run_forked(buf); fprintf(fr,"%s\n",g_out); if (fo&&g_orc[0]) fprintf(fo,"ORACLE x %ld %s\n",ln,g_orc); fflush(fr); }
        if (fo) fclose(fo); fclose(fr); return 0;
    }
    fprintf(stderr,"usage: allocfail gen <seed> <n> <ops_m> <impl_m> <ops_d> <impl_d> <oracle> | exec <ops> <impl> [oracle]\n");
    return 2;
}

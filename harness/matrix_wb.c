/* White-box translation unit: the static helpers of pixman/pixman-matrix.c, reached by including the
 * source file itself.  Compiled separately (checks/C11.py) with the library's optimisation level and
 * assertions live; `objcopy --keep-global-symbol` then hides everything except the wb_* wrappers, so
 * the public entry points the harness calls are the ones inside libpixman-1.a. */
#ifdef HAVE_CONFIG_H
#include <config.h>
#endif
#include "pixman-matrix.c"

uint64_t wb_udiv (uint64_t hi, uint64_t lo, uint64_t div, uint64_t *rhi) { return rounded_udiv_128_by_48 (hi, lo, div, rhi); }
int64_t wb_sdiv (int64_t hi, uint64_t lo, int64_t div, int64_t *rhi) { return rounded_sdiv_128_by_49 (hi, lo, div, rhi); }
void wb_to128 (int64_t hi, int64_t lo, int64_t *rhi, int64_t *rlo, int scalebits) { fixed_64_16_to_int128 (hi, lo, rhi, rlo, scalebits); }
int32_t wb_finv (int32_t x) { return fixed_inverse (x); }

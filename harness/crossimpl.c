/* Cross-implementation differential harness for C02 (domain `crossimpl`).
 *
 *   crossimpl tables <out>                        dump every fast_paths[] / iter_info[] entry of the live chain
 *   crossimpl gen <seed> <per_entry> <nrandom> <nbltfill> <ops_out>
 *                                                 request list: targeted at every table entry of the live chain
 *                                                 (run with PIXMAN_DISABLE unset) + untargeted random requests
 *   crossimpl exec <ops_in> <out>                 run the requests under THIS process's implementation chain
 *   crossimpl lookup <seed> <n> <ops_out> <impl_out>
 *                                                 D1: histories of _pixman_implementation_lookup_composite on
 *                                                 synthetic chains (replayed by `pixdrv simd`) and on the live chain
 *                                                 (compared in-process with an independent table walk)
 *
 * Request lines (self-contained; every buffer byte derives from the seeds in the line):
 *   C <tag> <op> <sx> <sy> <mx> <my> <dx> <dy> <w> <h> <IMG dest> <IMG src> <IMG mask>
 *   B <tag> <IMG src> <IMG dst> <sx> <sy> <dx> <dy> <w> <h>            pixman_blt
 *   F <tag> <IMG dst> <x> <y> <w> <h> <filler>                          pixman_fill
 *   IMG := kind fmt(hex) w h stride align seed pixmode repeat filter ca dither has_t [9 ints] nclip [4 ints]*
 *          kind: N none, S solid (seed = 4x16-bit colour), B bits, P bits shared with the source image,
 *                L linear gradient (seed drives the stops)
 * Reply: fp=<impl>:<entry> it=<impl>:<entry>,... raw=<crc> <hex of the whole destination allocation,
 *        undefined bits of the destination format cleared>
 * The fast path / iterator actually selected is observed, not assumed: every table of the chain is
 * replaced by a copy whose function pointers are trampolines that record (implementation, entry)
 * and then call the original. */
#ifdef HAVE_CONFIG_H
#include <config.h>
#endif
#include <stdio.h>
#include <stdlib.h>
#include <string.h>
#include <stdint.h>
#include "pixman-private.h"
#include "rng.h"

#define MAXLEV 8
static int nlev;
static pixman_implementation_t *lvl_imp[MAXLEV];
static const char *lvl_name[MAXLEV];
static const pixman_fast_path_t *orig_fp[MAXLEV];
static pixman_fast_path_t *copy_fp[MAXLEV];
static int nfp[MAXLEV];
static const pixman_iter_info_t *orig_it[MAXLEV];
static pixman_iter_info_t *copy_it[MAXLEV];
static int nit[MAXLEV];

static int hit_fp[4][2], n_hit_fp;      /* first = the dispatch of the request; further ones are nested lookups (tiled repeat) */
static int hit_it[16][2], n_hit_it;

static void die(const char *m) { fprintf(stderr, "crossimpl: %s\n", m); exit(3); }

/* ------------------------------------------------------------------ chain discovery */
static int env_disabled(const char *name)
{
    const char *e = getenv("PIXMAN_DISABLE");
    size_t n = strlen(name);
    if (!e) return 0;
    while (*e) {
        const char *end = strchr(e, ' ');
        size_t len = end ? (size_t)(end - e) : strlen(e);
        if (len == n && !strncmp(e, name, n)) return 1;
        e += len;
        if (*e) e++;
    }
    return 0;
}

static void discover_chain(void)
{
    pixman_implementation_t *imp = _pixman_internal_only_get_implementation();
    const char *expect[MAXLEV]; int ne = 0, k;
    __builtin_cpu_init();
    expect[ne++] = "noop";
    if (__builtin_cpu_supports("ssse3") && !env_disabled("ssse3")) expect[ne++] = "ssse3";
    if (__builtin_cpu_supports("sse2") && !env_disabled("sse2")) expect[ne++] = "sse2";
    if (__builtin_cpu_supports("mmx") && !env_disabled("mmx")) expect[ne++] = "mmx";
    if (!env_disabled("fast")) expect[ne++] = "fast";
    expect[ne++] = "general";
    for (nlev = 0; imp && nlev < MAXLEV; imp = imp->fallback, nlev++) lvl_imp[nlev] = imp;
    if (imp || nlev != ne) { fprintf(stderr, "crossimpl: chain has %d implementations, %d expected from PIXMAN_DISABLE/CPU\n", nlev, ne); exit(3); }
    for (k = 0; k < nlev; k++) {
        const pixman_fast_path_t *p = lvl_imp[k]->fast_paths; const pixman_iter_info_t *q = lvl_imp[k]->iter_info;
        lvl_name[k] = expect[k];
        orig_fp[k] = p; nfp[k] = 0;
        while (p[nfp[k]].op != PIXMAN_OP_NONE) nfp[k]++;
        orig_it[k] = q; nit[k] = 0;
        if (q) while (q[nit[k]].format != PIXMAN_null) nit[k]++;
    }
}

static int level_of(pixman_implementation_t *imp)
{
    int k; for (k = 0; k < nlev; k++) if (lvl_imp[k] == imp) return k;
    return -1;
}

/* ------------------------------------------------------------------ trampolines */
static void tramp(int n, pixman_implementation_t *imp, pixman_composite_info_t *info)
{
    int k = level_of(imp);
    if (k < 0 || n >= nfp[k]) die("trampoline called for an unknown implementation/entry");
    if (n_hit_fp < 4 && !(n_hit_fp && hit_fp[n_hit_fp - 1][0] == k && hit_fp[n_hit_fp - 1][1] == n)) { hit_fp[n_hit_fp][0] = k; hit_fp[n_hit_fp][1] = n; n_hit_fp++; }
    orig_fp[k][n].func(imp, info);
}
#define TR2(X,Y) static void tr_##X##Y(pixman_implementation_t *imp, pixman_composite_info_t *info){ tramp(0x##X##Y, imp, info); }
#define ROW(X) TR2(X,0) TR2(X,1) TR2(X,2) TR2(X,3) TR2(X,4) TR2(X,5) TR2(X,6) TR2(X,7) TR2(X,8) TR2(X,9) TR2(X,a) TR2(X,b) TR2(X,c) TR2(X,d) TR2(X,e) TR2(X,f)
ROW(0) ROW(1) ROW(2) ROW(3) ROW(4) ROW(5) ROW(6) ROW(7) ROW(8) ROW(9) ROW(a) ROW(b) ROW(c) ROW(d) ROW(e) ROW(f)
#define TP2(X,Y) tr_##X##Y,
#define ROWP(X) TP2(X,0) TP2(X,1) TP2(X,2) TP2(X,3) TP2(X,4) TP2(X,5) TP2(X,6) TP2(X,7) TP2(X,8) TP2(X,9) TP2(X,a) TP2(X,b) TP2(X,c) TP2(X,d) TP2(X,e) TP2(X,f)
static pixman_composite_func_t trs[256] = { ROWP(0) ROWP(1) ROWP(2) ROWP(3) ROWP(4) ROWP(5) ROWP(6) ROWP(7) ROWP(8) ROWP(9) ROWP(a) ROWP(b) ROWP(c) ROWP(d) ROWP(e) ROWP(f) };

static void iter_tramp(pixman_iter_t *iter, const pixman_iter_info_t *info)
{
    int k;
    for (k = 0; k < nlev; k++)
        if (copy_it[k] && info >= copy_it[k] && info < copy_it[k] + nit[k]) {
            int idx = (int)(info - copy_it[k]);
            if (n_hit_it < 16) { hit_it[n_hit_it][0] = k; hit_it[n_hit_it][1] = idx; n_hit_it++; }
            if (orig_it[k][idx].initializer) orig_it[k][idx].initializer(iter, &orig_it[k][idx]);
            return;
        }
    die("iterator trampoline: entry not found");
}

static void instrument(void)
{
    int k, i;
    for (k = 0; k < nlev; k++) {
        if (nfp[k] > 256) die("more than 256 fast paths in one table");
        copy_fp[k] = calloc(nfp[k] + 1, sizeof(pixman_fast_path_t));
        for (i = 0; i < nfp[k]; i++) { copy_fp[k][i] = orig_fp[k][i]; copy_fp[k][i].func = trs[i]; }
        copy_fp[k][nfp[k]].op = PIXMAN_OP_NONE;
        lvl_imp[k]->fast_paths = copy_fp[k];
        if (orig_it[k]) {
            copy_it[k] = calloc(nit[k] + 1, sizeof(pixman_iter_info_t));
            for (i = 0; i < nit[k]; i++) { copy_it[k][i] = orig_it[k][i]; copy_it[k][i].initializer = iter_tramp; }
            copy_it[k][nit[k]].format = PIXMAN_null;
            lvl_imp[k]->iter_info = copy_it[k];
        }
    }
}

/* ------------------------------------------------------------------ request representation */
typedef struct {
    char kind; uint32_t fmt; int w, h, stride, align; uint64_t seed; int pixmode, repeat, filter, ca, dither;
    int has_t; int32_t t[9]; int nclip; int clip[4][4];
} img_t;
typedef struct {
    char kind; char tag[40]; int op, sx, sy, mx, my, dx, dy, w, h; img_t d, s, m; uint32_t filler;
} req_t;

static void put_img(FILE *f, const img_t *im)
{
    int i;
    fprintf(f, " %c %x %d %d %d %d %llu %d %d %d %d %d %d", im->kind, im->fmt, im->w, im->h, im->stride, im->align,
            (unsigned long long)im->seed, im->pixmode, im->repeat, im->filter, im->ca, im->dither, im->has_t);
    if (im->has_t) for (i = 0; i < 9; i++) fprintf(f, " %d", im->t[i]);
    fprintf(f, " %d", im->nclip);
    for (i = 0; i < im->nclip; i++) fprintf(f, " %d %d %d %d", im->clip[i][0], im->clip[i][1], im->clip[i][2], im->clip[i][3]);
}
static void put_req(FILE *f, const req_t *r)
{
    if (r->kind == 'C') {
        fprintf(f, "C %s %d %d %d %d %d %d %d %d %d", r->tag, r->op, r->sx, r->sy, r->mx, r->my, r->dx, r->dy, r->w, r->h);
        put_img(f, &r->d); put_img(f, &r->s); put_img(f, &r->m);
    } else if (r->kind == 'B') {
        fprintf(f, "B %s", r->tag); put_img(f, &r->s); put_img(f, &r->d);
        fprintf(f, " %d %d %d %d %d %d", r->sx, r->sy, r->dx, r->dy, r->w, r->h);
    } else {
        fprintf(f, "F %s", r->tag); put_img(f, &r->d);
        fprintf(f, " %d %d %d %d %u", r->dx, r->dy, r->w, r->h, r->filler);
    }
    fputc('\n', f);
}

static char *tok_save;
static char *tok(void) { char *t = strtok_r(NULL, " \n", &tok_save); if (!t) die("short request line"); return t; }
static long long tokll(void) { return strtoll(tok(), NULL, 10); }
static void get_img(img_t *im)
{
    int i;
    memset(im, 0, sizeof *im);
    im->kind = tok()[0]; im->fmt = (uint32_t)strtoul(tok(), NULL, 16);
    im->w = (int)tokll(); im->h = (int)tokll(); im->stride = (int)tokll(); im->align = (int)tokll();
    im->seed = strtoull(tok(), NULL, 10); im->pixmode = (int)tokll(); im->repeat = (int)tokll(); im->filter = (int)tokll();
    im->ca = (int)tokll(); im->dither = (int)tokll(); im->has_t = (int)tokll();
    if (im->has_t) for (i = 0; i < 9; i++) im->t[i] = (int32_t)tokll();
    im->nclip = (int)tokll(); if (im->nclip > 4 || im->nclip < 0) die("bad clip count");
    for (i = 0; i < im->nclip; i++) { int j; for (j = 0; j < 4; j++) im->clip[i][j] = (int)tokll(); }
}
static int parse_req(char *line, req_t *r)
{
    char *t = strtok_r(line, " \n", &tok_save);
    if (!t || t[0] == '#') return 0;
    memset(r, 0, sizeof *r);
    r->kind = t[0];
    strncpy(r->tag, tok(), sizeof r->tag - 1);
    if (r->kind == 'C') {
        r->op = (int)tokll(); r->sx = (int)tokll(); r->sy = (int)tokll(); r->mx = (int)tokll(); r->my = (int)tokll();
        r->dx = (int)tokll(); r->dy = (int)tokll(); r->w = (int)tokll(); r->h = (int)tokll();
        get_img(&r->d); get_img(&r->s); get_img(&r->m);
    } else if (r->kind == 'B') {
        get_img(&r->s); get_img(&r->d);
        r->sx = (int)tokll(); r->sy = (int)tokll(); r->dx = (int)tokll(); r->dy = (int)tokll(); r->w = (int)tokll(); r->h = (int)tokll();
    } else if (r->kind == 'F') {
        get_img(&r->d);
        r->dx = (int)tokll(); r->dy = (int)tokll(); r->w = (int)tokll(); r->h = (int)tokll(); r->filler = (uint32_t)strtoul(tok(), NULL, 10);
    } else die("unknown request kind");
    return 1;
}

/* ------------------------------------------------------------------ buffers and images */
typedef struct { uint8_t *alloc, *base; size_t len; uint32_t *bits; } buf_t;

static uint64_t lrng;
static uint64_t l64(void) { uint64_t z = (lrng += 0x9E3779B97F4A7C15ULL); z = (z ^ (z >> 30)) * 0xBF58476D1CE4E5B9ULL; z = (z ^ (z >> 27)) * 0x94D049BB133111EBULL; return z ^ (z >> 31); }
static void lseed(uint64_t s) { lrng = s * 0x9E3779B97F4A7C15ULL + 0x51ed27; (void)l64(); }

static const uint8_t EDGE8[] = { 0, 0xff, 1, 0xfe, 0x7f, 0x80, 0x81, 0x10, 0xf0, 0x55 };
static uint8_t edge_byte(void) { uint64_t r = l64(); return (r & 3) ? EDGE8[(r >> 8) % sizeof EDGE8] : (uint8_t)(r >> 16); }

static int is_float_fmt(uint32_t f) { return f == PIXMAN_rgba_float || f == PIXMAN_rgb_float; }

/* modes 7/8: runs of whole pixels; every run boundary phase relative to 4-, 8-, 16-pixel groups occurs because the
 * run lengths and the first run are random */
static void fill_runs(uint8_t *p, size_t len, uint32_t fmt, int mode)
{
    int bpp = PIXMAN_FORMAT_BPP(fmt), unit = (bpp == 32) ? 4 : (bpp == 16) ? 2 : 1;
    int t = PIXMAN_FORMAT_TYPE(fmt), apos = (t == PIXMAN_TYPE_ARGB || t == PIXMAN_TYPE_ABGR) ? 3 : 0;
    static const int MAXL[] = { 3, 5, 9, 17, 40 };
    int maxl = MAXL[l64() % 5], nkinds = mode == 7 ? 3 : 6;
    size_t i = 0;
    while (i < len) {
        int run = 1 + (int)(l64() % (uint64_t)maxl), kind = (int)(l64() % (uint64_t)nkinds), j, k;
        uint8_t cst[4]; int constant = (l64() & 1) != 0;
        for (k = 0; k < 4; k++) cst[k] = (uint8_t)(l64() >> 16);
        if (unit == 1 && mode == 7 && kind == 2) kind = (int)(l64() & 1);
        for (j = 0; j < run && i < len; j++, i += (size_t)unit) {
            uint8_t px[4];
            for (k = 0; k < 4; k++) px[k] = constant ? cst[k] : (uint8_t)(l64() >> 24);
            switch (kind) {
            case 0: memset(px, 0, 4); break;                                   /* transparent / zero coverage */
            case 1: memset(px, 0xff, 4); break;                                /* all ones / full coverage */
            case 2: if (unit == 4) px[apos] = 0xff; break;                     /* opaque, random colour (other sizes: random) */
            case 3: if (unit == 4) px[apos] = (l64() & 1) ? 0x01 : 0xfe; else { static const uint8_t E[] = { 0x01, 0xfe, 0x7f, 0x80 }; memset(px, E[cst[0] & 3], 4); } break;
            case 4: if (unit == 4) { px[apos] = 0; } else memset(px, (cst[1] & 1) ? 0x01 : 0xfe, 4); break;   /* alpha 0, colour kept (non-premultiplied) */
            default: break;                                                    /* translucent random */
            }
            for (k = 0; k < unit && i + (size_t)k < len; k++) p[i + (size_t)k] = px[k];
        }
    }
}

/* pixmode: 0 random, 1 edge-biased bytes, 2 alpha forced opaque where the format is 32bpp, 3 premultiplied-looking
 * (32bpp argb-like: colour <= alpha), 4 all zero, 5 all ones, 6 few distinct values (long runs),
 * 7 pixel runs of random length and phase drawn from {transparent/zero, opaque/all-ones} only (a8: 00/ff; 32bpp:
 * 00000000, ffffffff, alpha ff + random colour), 8 the same plus edge values (a8: 01 fe 7f 80; 32bpp: alpha 01/fe,
 * translucent random) -- these drive the whole-vector "all opaque / all zero" shortcuts of the SIMD loops */
static void fill_buffer(uint8_t *p, size_t len, uint32_t fmt, uint64_t seed, int mode)
{
    size_t i;
    lseed(seed);
    if (is_float_fmt(fmt)) {
        static const float E[] = { 0.f, 1.f, 0.5f, 0.25f, 1.f / 255, 254.f / 255, 0.75f, 0.1f };
        float *q = (float *)p;
        for (i = 0; i + 4 <= len; i += 4, q++) {
            uint64_t r = l64();
            *q = (mode == 4) ? 0.f : (mode == 5) ? 1.f : ((r & 1) ? E[(r >> 4) % 8] : (float)((r >> 8) & 0xffff) / 65535.f);
        }
        return;
    }
    switch (mode) {
    case 4: memset(p, 0, len); return;
    case 5: memset(p, 0xff, len); return;
    case 7: case 8: fill_runs(p, len, fmt, mode); return;
    case 0: for (i = 0; i < len; i++) p[i] = (uint8_t)(l64() >> 24); break;
    case 6: { uint8_t v[4][4]; int j, k; for (j = 0; j < 4; j++) for (k = 0; k < 4; k++) v[j][k] = edge_byte();
              for (i = 0; i < len; i += 4) { int j2 = (int)((l64() >> 20) % 4); if ((l64() & 7) != 0 && i) j2 = -1;
                  for (k = 0; k < 4 && i + k < len; k++) p[i + k] = j2 < 0 ? p[i + k - 4] : v[j2][k]; } break; }
    default: for (i = 0; i < len; i++) p[i] = edge_byte(); break;
    }
    if ((mode == 2 || mode == 3) && PIXMAN_FORMAT_BPP(fmt) == 32) {
        int t = PIXMAN_FORMAT_TYPE(fmt);
        int apos = (t == PIXMAN_TYPE_ARGB || t == PIXMAN_TYPE_ABGR) ? 3 : 0;    /* little endian byte of alpha */
        for (i = 0; i + 4 <= len; i += 4) {
            if (mode == 2) p[i + apos] = 0xff;
            else { int k; for (k = 0; k < 4; k++) if (k != apos && p[i + k] > p[i + apos]) p[i + k] = p[i + apos]; }
        }
    }
}

static int make_buffer(const img_t *im, buf_t *b)
{
    int as = im->stride < 0 ? -im->stride : im->stride;
    b->len = (size_t)as * im->h;
    b->alloc = malloc(b->len + 160);
    if (!b->alloc) die("out of memory");
    b->base = (uint8_t *)(((uintptr_t)b->alloc + 63) & ~(uintptr_t)63) + 64 + im->align;
    /* guard bytes around the buffer are part of the allocation but never printed */
    fill_buffer(b->base, b->len, im->fmt, im->seed, im->pixmode);
    b->bits = (uint32_t *)(im->stride >= 0 ? b->base : b->base + (size_t)(im->h - 1) * as);
    return 1;
}

static pixman_image_t *make_image(const img_t *im, buf_t *b, const buf_t *shared)
{
    pixman_image_t *img = NULL;
    memset(b, 0, sizeof *b);
    if (im->kind == 'N') return NULL;
    if (im->kind == 'S') {
        pixman_color_t c; c.red = (uint16_t)(im->seed >> 48); c.green = (uint16_t)(im->seed >> 32); c.blue = (uint16_t)(im->seed >> 16); c.alpha = (uint16_t)im->seed;
        img = pixman_image_create_solid_fill(&c);
    } else if (im->kind == 'L') {
        pixman_gradient_stop_t st[4]; pixman_point_fixed_t p1, p2; int n, i;
        lseed(im->seed); n = 2 + (int)(l64() % 3);
        for (i = 0; i < n; i++) {
            uint64_t r = l64();
            st[i].x = (pixman_fixed_t)(i * 65536 / (n - 1));
            st[i].color.red = (uint16_t)r; st[i].color.green = (uint16_t)(r >> 16); st[i].color.blue = (uint16_t)(r >> 32);
            st[i].color.alpha = im->pixmode == 2 ? 0xffff : (uint16_t)(r >> 48);
        }
        p1.x = 0; p1.y = 0; p2.x = pixman_int_to_fixed(im->w); p2.y = pixman_int_to_fixed(im->h);
        img = pixman_image_create_linear_gradient(&p1, &p2, st, n);
    } else {
        if (im->kind == 'P') { if (!shared || !shared->bits) die("P image without a source buffer"); b->bits = shared->bits; }
        else make_buffer(im, b);
        img = pixman_image_create_bits((pixman_format_code_t)im->fmt, im->w, im->h, b->bits, im->stride);
    }
    if (!img) die("image creation failed");
    pixman_image_set_repeat(img, (pixman_repeat_t)im->repeat);
    if (im->has_t) {
        pixman_transform_t t; int i;
        for (i = 0; i < 9; i++) t.matrix[i / 3][i % 3] = im->t[i];
        pixman_image_set_transform(img, &t);
    }
    if (im->filter == PIXMAN_FILTER_CONVOLUTION) {               /* convolution, kernel from the seed */
        pixman_fixed_t params[2 + 9]; int cw, ch, i;
        lseed(im->seed ^ 0xc0c0);
        cw = 1 + (int)(l64() % 3); ch = 1 + (int)(l64() % 3);
        params[0] = pixman_int_to_fixed(cw); params[1] = pixman_int_to_fixed(ch);
        for (i = 0; i < cw * ch; i++) params[2 + i] = (pixman_fixed_t)((int)(l64() % 49152) - 8192);
        pixman_image_set_filter(img, PIXMAN_FILTER_CONVOLUTION, params, 2 + cw * ch);
    } else if (im->filter == PIXMAN_FILTER_SEPARABLE_CONVOLUTION) {        /* separable convolution built by the library from the seed */
        static const pixman_kernel_t K[] = { PIXMAN_KERNEL_IMPULSE, PIXMAN_KERNEL_BOX, PIXMAN_KERNEL_LINEAR, PIXMAN_KERNEL_CUBIC, PIXMAN_KERNEL_GAUSSIAN, PIXMAN_KERNEL_LANCZOS2 };
        int n = 0; uint64_t r; pixman_fixed_t *params, sx = pixman_fixed_1, sy = pixman_fixed_1;
        lseed(im->seed ^ 0x5e9a); r = l64();
        if (im->has_t) { sx = im->t[0] < 0 ? -im->t[0] : im->t[0]; sy = im->t[4] < 0 ? -im->t[4] : im->t[4]; if (sx < 4096) sx = pixman_fixed_1; if (sy < 4096) sy = pixman_fixed_1; if (sx > 4 * 65536) sx = 4 * 65536; if (sy > 4 * 65536) sy = 4 * 65536; }
        /* reconstruction BOX..LINEAR, sample kernels varied; IMPULSE x IMPULSE is avoided (C18's subject) */
        params = pixman_filter_create_separable_convolution(&n, sx, sy, K[1 + r % 2], K[1 + (r >> 4) % 2], K[(r >> 8) % 6], K[(r >> 12) % 6], (int)((r >> 16) % 3), (int)((r >> 20) % 3));
        if (!params) die("separable convolution creation failed");
        pixman_image_set_filter(img, PIXMAN_FILTER_SEPARABLE_CONVOLUTION, params, n);
        free(params);
    } else pixman_image_set_filter(img, (pixman_filter_t)im->filter, NULL, 0);
    if (im->ca) pixman_image_set_component_alpha(img, 1);
    if (im->dither && im->kind == 'B') pixman_image_set_dither(img, (pixman_dither_t)im->dither);
    if (im->nclip) {
        pixman_region32_t reg; pixman_box32_t bx[4]; int i;
        for (i = 0; i < im->nclip; i++) { bx[i].x1 = im->clip[i][0]; bx[i].y1 = im->clip[i][1]; bx[i].x2 = im->clip[i][2]; bx[i].y2 = im->clip[i][3]; }
        if (!pixman_region32_init_rects(&reg, bx, im->nclip)) die("clip region failed");
        pixman_image_set_clip_region32(img, &reg);
        pixman_region32_fini(&reg);
    }
    return img;
}

/* undefined bits of a pixel of `fmt` (x bits); only for 8/16/32 bpp */
static uint32_t defined_mask(uint32_t f)
{
    int A = PIXMAN_FORMAT_A(f), R = PIXMAN_FORMAT_R(f), G = PIXMAN_FORMAT_G(f), B = PIXMAN_FORMAT_B(f), bpp = PIXMAN_FORMAT_BPP(f);
    int a = 0, r = 0, g = 0, b = 0; uint32_t m = 0;
    if (f == PIXMAN_a8r8g8b8_sRGB) return 0xffffffffu;
    if (is_float_fmt(f) || bpp > 32) return 0xffffffffu;
    if (PIXMAN_FORMAT_TYPE(f) == PIXMAN_TYPE_ARGB_SRGB) return 0xffffffffu;
    switch (PIXMAN_FORMAT_TYPE(f)) {
    case PIXMAN_TYPE_A: a = 0; break;
    case PIXMAN_TYPE_ARGB: b = 0; g = B; r = B + G; a = B + G + R; break;
    case PIXMAN_TYPE_ABGR: r = 0; g = R; b = R + G; a = R + G + B; break;
    case PIXMAN_TYPE_BGRA: b = bpp - B; g = b - G; r = g - R; a = r - A; break;
    case PIXMAN_TYPE_RGBA: r = bpp - R; g = r - G; b = g - B; a = b - A; break;
    default: return 0xffffffffu;
    }
#define FIELD(n, s) ((n) ? ((((n) >= 32) ? 0xffffffffu : ((1u << (n)) - 1)) << (s)) : 0)
    m = FIELD(A, a) | FIELD(R, r) | FIELD(G, g) | FIELD(B, b);
    return m;
}

static uint32_t crc32_buf(const uint8_t *p, size_t n)
{
    uint32_t c = 0xffffffffu; size_t i; int k;
    for (i = 0; i < n; i++) { c ^= p[i]; for (k = 0; k < 8; k++) c = (c >> 1) ^ (0xedb88320u & (0u - (c & 1))); }
    return ~c;
}

/* print the destination allocation: raw crc, then hex with the undefined bits of every pixel cleared */
static void print_dest(FILE *out, const img_t *im, const buf_t *b)
{
    size_t i; int x, y, as = im->stride < 0 ? -im->stride : im->stride, bpp = PIXMAN_FORMAT_BPP(im->fmt);
    uint32_t dm = defined_mask(im->fmt);
    uint8_t *c = malloc(b->len);
    static const char H[] = "0123456789abcdef";
    char *s = malloc(b->len * 2 + 2);
    fprintf(out, "raw=%08x ", crc32_buf(b->base, b->len));
    memcpy(c, b->base, b->len);
    if ((bpp == 8 || bpp == 16 || bpp == 32) && dm != (bpp == 32 ? 0xffffffffu : ((1u << bpp) - 1)))
        for (y = 0; y < im->h; y++) for (x = 0; x < im->w; x++) {
            uint8_t *p = c + (size_t)y * as + (size_t)x * (bpp / 8);
            if (bpp == 8) *p &= (uint8_t)dm; else if (bpp == 16) { uint16_t v; memcpy(&v, p, 2); v &= (uint16_t)dm; memcpy(p, &v, 2); }
            else { uint32_t v; memcpy(&v, p, 4); v &= dm; memcpy(p, &v, 4); }
        }
    for (i = 0; i < b->len; i++) { s[2 * i] = H[c[i] >> 4]; s[2 * i + 1] = H[c[i] & 15]; }
    s[2 * b->len] = 0;
    fputs(s, out);
    free(s); free(c);
}

/* ------------------------------------------------------------------ exec */
static void exec_composite(const req_t *r, FILE *out)
{
    buf_t bd, bs, bm; int i;
    pixman_image_t *D = make_image(&r->d, &bd, NULL), *S = make_image(&r->s, &bs, NULL), *M = make_image(&r->m, &bm, &bs);
    n_hit_fp = 0; n_hit_it = 0;
    pixman_image_composite32((pixman_op_t)r->op, S, M, D, r->sx, r->sy, r->mx, r->my, r->dx, r->dy, r->w, r->h);
    fprintf(out, "fp=");
    for (i = 0; i < n_hit_fp; i++) fprintf(out, "%s%s:%d", i ? ">" : "", lvl_name[hit_fp[i][0]], hit_fp[i][1]);
    if (!n_hit_fp) fputc('-', out);
    fprintf(out, " it=");
    for (i = 0; i < n_hit_it; i++) fprintf(out, "%s%s:%d", i ? "," : "", lvl_name[hit_it[i][0]], hit_it[i][1]);
    if (!n_hit_it) fputc('-', out);
    fputc(' ', out);
    print_dest(out, &r->d, &bd);
    fputc('\n', out);
    pixman_image_unref(D); pixman_image_unref(S); if (M) pixman_image_unref(M);
    free(bd.alloc); free(bs.alloc); if (r->m.kind != 'P') free(bm.alloc);
}

static void exec_blt(const req_t *r, FILE *out)
{
    buf_t bs, bd; uint8_t *before, *expect; int ret, y, sb = PIXMAN_FORMAT_BPP(r->s.fmt), db = PIXMAN_FORMAT_BPP(r->d.fmt);
    int sas = r->s.stride < 0 ? -r->s.stride : r->s.stride, das = r->d.stride < 0 ? -r->d.stride : r->d.stride;
    make_buffer(&r->s, &bs); make_buffer(&r->d, &bd);
    before = malloc(bd.len); memcpy(before, bd.base, bd.len);
    expect = malloc(bd.len); memcpy(expect, bd.base, bd.len);
    if (sb == db && (sb % 8) == 0)
        for (y = 0; y < r->h; y++) {
            /* rows are addressed from `bits` with the signed stride, as the API defines */
            const uint8_t *sp = (const uint8_t *)bs.bits + (ptrdiff_t)(r->sy + y) * r->s.stride + (size_t)r->sx * (sb / 8);
            uint8_t *dp = expect + (((uint8_t *)bd.bits + (ptrdiff_t)(r->dy + y) * r->d.stride) - bd.base) + (size_t)r->dx * (db / 8);
            memcpy(dp, sp, (size_t)r->w * (sb / 8));
        }
    (void)sas; (void)das;
    ret = pixman_blt(bs.bits, bd.bits, r->s.stride / 4, r->d.stride / 4, sb, db, r->sx, r->sy, r->dx, r->dy, r->w, r->h);
    fprintf(out, "ret=%d unchanged=%d copy_ok=%d ", ret, !memcmp(before, bd.base, bd.len), (sb == db && (sb % 8) == 0) ? !memcmp(expect, bd.base, bd.len) : -1);
    { img_t raw = r->d; raw.fmt = PIXMAN_a8r8g8b8; print_dest(out, &raw, &bd); }
    fputc('\n', out);
    free(before); free(expect); free(bs.alloc); free(bd.alloc);
}

static void exec_fill(const req_t *r, FILE *out)
{
    buf_t bd; uint8_t *before, *expect; int ret, x, y, bpp = PIXMAN_FORMAT_BPP(r->d.fmt), ok = -1;
    make_buffer(&r->d, &bd);
    before = malloc(bd.len); memcpy(before, bd.base, bd.len);
    expect = malloc(bd.len); memcpy(expect, bd.base, bd.len);
    if (bpp == 8 || bpp == 16 || bpp == 32)
        for (y = 0; y < r->h; y++) for (x = 0; x < r->w; x++) {
            uint8_t *dp = expect + (((uint8_t *)bd.bits + (ptrdiff_t)(r->dy + y) * r->d.stride) - bd.base) + (size_t)(r->dx + x) * (bpp / 8);
            if (bpp == 8) *dp = (uint8_t)r->filler; else if (bpp == 16) { uint16_t v = (uint16_t)r->filler; memcpy(dp, &v, 2); } else memcpy(dp, &r->filler, 4);
        }
    ret = pixman_fill(bd.bits, r->d.stride / 4, bpp, r->dx, r->dy, r->w, r->h, r->filler);
    if (bpp == 8 || bpp == 16 || bpp == 32) ok = !memcmp(expect, bd.base, bd.len);
    fprintf(out, "ret=%d unchanged=%d copy_ok=%d ", ret, !memcmp(before, bd.base, bd.len), ok);
    { img_t raw = r->d; raw.fmt = PIXMAN_a8r8g8b8; print_dest(out, &raw, &bd); }
    fputc('\n', out);
    free(before); free(expect); free(bd.alloc);
}

static int do_exec(const char *in, const char *outp)
{
    FILE *fi = fopen(in, "r"), *fo = fopen(outp, "w"); char *line = NULL; size_t cap = 0; req_t r;
    if (!fi || !fo) die("cannot open files");
    discover_chain(); instrument();
    while (getline(&line, &cap, fi) > 0) {
        if (!parse_req(line, &r)) { fprintf(fo, "#\n"); continue; }
        if (r.kind == 'C') exec_composite(&r, fo); else if (r.kind == 'B') exec_blt(&r, fo); else exec_fill(&r, fo);
    }
    fclose(fi); fclose(fo); free(line);
    return 0;
}

/* ------------------------------------------------------------------ generator */
static const uint32_t NARROW[] = {
    PIXMAN_a8r8g8b8, PIXMAN_x8r8g8b8, PIXMAN_a8b8g8r8, PIXMAN_x8b8g8r8, PIXMAN_b8g8r8a8, PIXMAN_b8g8r8x8, PIXMAN_r8g8b8a8, PIXMAN_r8g8b8x8,
    PIXMAN_r8g8b8, PIXMAN_b8g8r8, PIXMAN_r5g6b5, PIXMAN_b5g6r5, PIXMAN_a1r5g5b5, PIXMAN_x1r5g5b5, PIXMAN_a4r4g4b4, PIXMAN_x4r4g4b4,
    PIXMAN_a8, PIXMAN_r3g3b2, PIXMAN_a2r2g2b2, PIXMAN_x4a4, PIXMAN_a4, PIXMAN_a1, PIXMAN_a1b5g5r5, PIXMAN_a4b4g4r4 };
static const uint32_t WIDE[] = { PIXMAN_x2r10g10b10, PIXMAN_a2r10g10b10, PIXMAN_x2b10g10r10, PIXMAN_a2b10g10r10, PIXMAN_a8r8g8b8_sRGB, PIXMAN_rgba_float, PIXMAN_rgb_float };
#define NN ((int)(sizeof NARROW / sizeof NARROW[0]))
#define NW ((int)(sizeof WIDE / sizeof WIDE[0]))
static const int OPS[] = { 0,1,2,3,4,5,6,7,8,9,10,11,12,13, 0x10,0x11,0x12,0x13,0x14,0x15,0x16,0x17,0x18,0x19,0x1a,0x1b,
    0x20,0x21,0x22,0x23,0x24,0x25,0x26,0x27,0x28,0x29,0x2a,0x2b, 0x30,0x31,0x32,0x33,0x34,0x35,0x36,0x37,0x38,0x39,0x3a,0x3b,0x3c,0x3d,0x3e };
#define NOPS ((int)(sizeof OPS / sizeof OPS[0]))

static uint32_t pick_fmt(int allow_wide) { if (allow_wide && rng_chance(25)) return WIDE[rng_n(NW)]; return NARROW[rng_n(rng_chance(60) ? 8 : NN)]; }

static int stride_for(uint32_t fmt, int w, int *neg)
{
    int bpp = PIXMAN_FORMAT_BPP(fmt); int s;
    if (fmt == PIXMAN_rgba_float) bpp = 128; else if (fmt == PIXMAN_rgb_float) bpp = 96;
    s = ((w * bpp + 31) / 32) * 4;
    if (rng_chance(50)) s += 4 * rng_range(1, 5);
    if (bpp == 128) s = (s + 15) & ~15;
    *neg = rng_chance(25);
    return *neg ? -s : s;
}
static void init_bits(img_t *im, uint32_t fmt, int w, int h)
{
    int neg;
    memset(im, 0, sizeof *im);
    im->kind = 'B'; im->fmt = fmt; im->w = w < 1 ? 1 : w; im->h = h < 1 ? 1 : h; im->stride = stride_for(fmt, im->w, &neg);
    im->align = 4 * rng_n(4); im->seed = rng_u64() >> 1; im->pixmode = rng_chance(38) ? 1 : rng_chance(30) ? 0 : rng_chance(45) ? rng_range(7, 8) : rng_range(2, 6);
    im->filter = PIXMAN_FILTER_NEAREST;
}
static void init_solid(img_t *im, int opaque)
{
    static const uint16_t A[] = { 0, 0xffff, 0x0100, 0xfe00, 0x8000, 0x7fff, 0x0001, 0xff00, 0x00ff };
    uint64_t c = rng_u64(); uint16_t a;
    memset(im, 0, sizeof *im);
    im->kind = 'S';
    a = opaque ? 0xffff : rng_chance(50) ? A[rng_n(9)] : (uint16_t)rng_u32();
    if (!opaque && a == 0xffff && rng_chance(80)) a = 0x8080;
    if (rng_chance(30)) c = ((uint64_t)A[rng_n(9)] << 48) | ((uint64_t)A[rng_n(9)] << 32) | ((uint64_t)A[rng_n(9)] << 16);
    im->seed = (c & ~0xffffULL) | a;
    im->filter = PIXMAN_FILTER_NEAREST;
}

#define REPEAT_BITS (FAST_PATH_NO_NONE_REPEAT | FAST_PATH_NO_NORMAL_REPEAT | FAST_PATH_NO_PAD_REPEAT | FAST_PATH_NO_REFLECT_REPEAT)
static uint32_t repeat_flags(int rep)
{
    switch (rep) {
    case PIXMAN_REPEAT_NONE: return FAST_PATH_NO_REFLECT_REPEAT | FAST_PATH_NO_PAD_REPEAT | FAST_PATH_NO_NORMAL_REPEAT;
    case PIXMAN_REPEAT_REFLECT: return FAST_PATH_NO_PAD_REPEAT | FAST_PATH_NO_NONE_REPEAT | FAST_PATH_NO_NORMAL_REPEAT;
    case PIXMAN_REPEAT_PAD: return FAST_PATH_NO_REFLECT_REPEAT | FAST_PATH_NO_NONE_REPEAT | FAST_PATH_NO_NORMAL_REPEAT;
    default: return FAST_PATH_NO_REFLECT_REPEAT | FAST_PATH_NO_PAD_REPEAT | FAST_PATH_NO_NONE_REPEAT;
    }
}
static int format_opaque(uint32_t f) { return !PIXMAN_FORMAT_A(f) && PIXMAN_FORMAT_TYPE(f) != PIXMAN_TYPE_GRAY && PIXMAN_FORMAT_TYPE(f) != PIXMAN_TYPE_COLOR; }

static const int32_t SCALES[] = { 65536, 32768, 131072, 98304, 49152, 21845, 203161, 65537, 65535, 43691, 16384, 262144, 72090, 58982 };
#define NSC ((int)(sizeof SCALES / sizeof SCALES[0]))

/* Synthesise a source-role image whose computed flags imply `flags` for format `fmt`, sampled by the
 * rectangle (ox,oy,w,h) in its own coordinate system (ox,oy = src_x,src_y of the request). */
static void synth_image(img_t *im, uint32_t fmt, uint32_t flags, int ox, int oy, int w, int h, int is_mask)
{
    int rep, cand[4], nc = 0, i, cover, need_cover, bil;
    int64_t x0, x1, y0, y1;               /* sampled bbox in 16.16 before translation */
    int32_t t[9] = { 65536, 0, 0, 0, 65536, 0, 0, 0, 65536 };
    int has_t = 0, margin;
    if (fmt == PIXMAN_null) { memset(im, 0, sizeof *im); im->kind = 'N'; return; }
    if (fmt == PIXMAN_solid) {
        if (rng_chance(70)) init_solid(im, (flags & FAST_PATH_IS_OPAQUE) != 0);
        else { init_bits(im, (flags & FAST_PATH_IS_OPAQUE) ? PIXMAN_x8r8g8b8 : (rng_chance(70) ? PIXMAN_a8r8g8b8 : is_mask ? PIXMAN_a8 : PIXMAN_a8b8g8r8), 1, 1); im->repeat = PIXMAN_REPEAT_NORMAL; im->stride = im->stride < 0 ? -4 : 4; }
        if (flags & FAST_PATH_COMPONENT_ALPHA) im->ca = 1;
        return;
    }
    if (fmt == PIXMAN_any || fmt == PIXMAN_unknown) fmt = pick_fmt(!(flags & FAST_PATH_NARROW_FORMAT));
    if ((flags & (FAST_PATH_IS_OPAQUE | FAST_PATH_SAMPLES_OPAQUE)) && !format_opaque(fmt)) fmt = PIXMAN_x8r8g8b8;
    /* repeat */
    for (rep = 0; rep < 4; rep++) if ((repeat_flags(rep) & flags & REPEAT_BITS) == (flags & REPEAT_BITS)) cand[nc++] = rep;
    rep = nc ? cand[(flags & REPEAT_BITS) ? rng_n(nc) : (rng_chance(70) ? 0 : rng_n(nc))] : 0;
    /* transform */
    if (flags & FAST_PATH_ID_TRANSFORM) has_t = 0;
    else if (flags & FAST_PATH_ROTATE_90_TRANSFORM) { has_t = 1; t[0] = 0; t[1] = -65536; t[3] = 65536; t[4] = 0; }
    else if (flags & FAST_PATH_ROTATE_270_TRANSFORM) { has_t = 1; t[0] = 0; t[1] = 65536; t[3] = -65536; t[4] = 0; }
    else if (flags & FAST_PATH_ROTATE_180_TRANSFORM) { has_t = 1; t[0] = -65536; t[4] = -65536; }
    else if (flags & FAST_PATH_SCALE_TRANSFORM) {
        has_t = 1; t[0] = SCALES[rng_n(NSC)]; t[4] = SCALES[rng_n(NSC)];
        if (!(flags & FAST_PATH_X_UNIT_POSITIVE) && rng_chance(25)) t[0] = -t[0];
        if (rng_chance(15)) t[4] = -t[4];
    } else if (flags & (FAST_PATH_AFFINE_TRANSFORM | FAST_PATH_HAS_TRANSFORM)) {
        has_t = 1; t[0] = SCALES[rng_n(NSC)]; t[4] = SCALES[rng_n(NSC)];
        if (!(flags & FAST_PATH_Y_UNIT_ZERO) && rng_chance(60)) { t[1] = rng_range(-40000, 40000); t[3] = rng_range(-40000, 40000); }
        if (!(flags & FAST_PATH_X_UNIT_POSITIVE) && rng_chance(25)) t[0] = -t[0];
        if (!(flags & FAST_PATH_AFFINE_TRANSFORM) && rng_chance(50)) { t[6] = rng_range(-300, 300); t[7] = rng_range(-300, 300); t[8] = 65536 + rng_range(-2000, 2000); }
    } else if (rng_chance(30)) {
        has_t = 1; t[0] = SCALES[rng_n(NSC)]; t[4] = SCALES[rng_n(NSC)];
        if (rng_chance(30)) { t[1] = rng_range(-40000, 40000); t[3] = rng_range(-40000, 40000); }
    }
    /* sampled bbox of the pixel centres (projective part ignored: only approximate placement needed) */
    {
        int64_t cx[2] = { (int64_t)ox * 65536 + 32768, (int64_t)(ox + w) * 65536 - 32768 }, cy[2] = { (int64_t)oy * 65536 + 32768, (int64_t)(oy + h) * 65536 - 32768 };
        int a, b; x0 = y0 = INT64_MAX; x1 = y1 = INT64_MIN;
        for (a = 0; a < 2; a++) for (b = 0; b < 2; b++) {
            int64_t X = (t[0] * cx[a] + t[1] * cy[b]) / 65536, Y = (t[3] * cx[a] + t[4] * cy[b]) / 65536;
            if (X < x0) x0 = X; if (X > x1) x1 = X; if (Y < y0) y0 = Y; if (Y > y1) y1 = Y;
        }
    }
    bil = (flags & FAST_PATH_BILINEAR_FILTER) != 0;
    need_cover = (flags & (FAST_PATH_SAMPLES_COVER_CLIP_NEAREST | FAST_PATH_SAMPLES_COVER_CLIP_BILINEAR)) != 0;
    if ((flags & FAST_PATH_IS_OPAQUE) && rep == PIXMAN_REPEAT_NONE) need_cover = 1;
    cover = need_cover || rng_chance(has_t || rep ? 25 : 85);
    margin = 2;
    {
        int iw, ih; int64_t tx, ty;
        if (cover) {
            tx = (int64_t)(margin + rng_n(3)) * 65536 - (x0 & ~0xffffLL) + (has_t && !need_cover ? rng_n(65536) : (has_t ? rng_n(2) * 32768 : 0));
            ty = (int64_t)(margin + rng_n(2)) * 65536 - (y0 & ~0xffffLL) + (has_t && !need_cover ? rng_n(65536) : 0);
            if (!has_t) { tx = 0; ty = 0; }
            iw = (int)((x1 + tx) >> 16) + margin + 2 + rng_n(3); ih = (int)((y1 + ty) >> 16) + margin + 2 + rng_n(2);
            if (!has_t) { iw = ox + w + rng_n(4); ih = oy + h + rng_n(3); }
        } else {
            /* samples leave the image: shift left/up and/or make the image smaller than the sampled span */
            int spanw = (int)((x1 - x0) >> 16) + 1, spanh = (int)((y1 - y0) >> 16) + 1;
            tx = -(x0 & ~0xffffLL) - (int64_t)rng_range(0, spanw > 3 ? 3 : spanw) * 65536 + (has_t ? rng_n(65536) : 0);
            ty = -(y0 & ~0xffffLL) - (int64_t)rng_range(0, 1) * 65536 + (has_t ? rng_n(65536) : 0);
            iw = rng_chance(50) ? rng_range(1, spanw + 2) : rng_range(1, 6); ih = rng_chance(50) ? rng_range(1, spanh + 1) : rng_range(1, 4);
            if (!has_t) { tx = ty = 0; }
            if (iw == 1 && ih == 1 && rep != PIXMAN_REPEAT_NONE) iw = 2;
        }
        if (iw > 800) iw = 800; if (ih > 800) ih = 800;
        init_bits(im, fmt, iw, ih);
        if (has_t) { t[2] = (int32_t)tx; t[5] = (int32_t)ty; }
    }
    im->repeat = rep; im->has_t = has_t;
    for (i = 0; i < 9; i++) im->t[i] = t[i];
    if (flags & FAST_PATH_SEPARABLE_CONVOLUTION_FILTER) im->filter = PIXMAN_FILTER_SEPARABLE_CONVOLUTION;
    else if (bil) im->filter = PIXMAN_FILTER_BILINEAR;
    else if (flags & FAST_PATH_NEAREST_FILTER) im->filter = PIXMAN_FILTER_NEAREST;
    else if (!(flags & FAST_PATH_NO_CONVOLUTION_FILTER) && rng_chance(40)) im->filter = rng_chance(50) ? PIXMAN_FILTER_CONVOLUTION : PIXMAN_FILTER_SEPARABLE_CONVOLUTION;
    else im->filter = rng_chance(60) ? PIXMAN_FILTER_NEAREST : PIXMAN_FILTER_BILINEAR;
    if (flags & FAST_PATH_COMPONENT_ALPHA) im->ca = 1;
    else if (is_mask && !(flags & FAST_PATH_UNIFIED_ALPHA) && PIXMAN_FORMAT_RGB(fmt) && rng_chance(30)) im->ca = 1;
    if ((flags & (FAST_PATH_IS_OPAQUE | FAST_PATH_SAMPLES_OPAQUE)) == 0 && !is_mask && rng_chance(20)) im->pixmode = 3;
}

static int sweep_w(int v) { return 1 + (v % 35); }
/* second width class: rows long enough for several whole cache-line tiles / many vectors after the unaligned head
 * (tiled rotate/blt loops, 4- and 8-pixel vector bodies): multiples of the tile and vector sizes +- 1 */
static int wide_w(uint32_t dfmt)
{
    static const int W32[] = { 48, 49, 63, 64, 65, 79, 80, 81, 96, 127, 128, 129, 160 };
    static const int W16[] = { 96, 97, 127, 128, 129, 160, 161, 191, 192, 193, 256 };
    static const int W8[] = { 192, 193, 208, 224, 255, 256, 257, 288, 300 };
    int bpp = PIXMAN_FORMAT_BPP(dfmt);
    if (bpp == 16) return W16[rng_n(11)];
    if (bpp <= 8) return W8[rng_n(9)];
    return W32[rng_n(13)];
}
/* correlated structured patterns: coverage runs in the mask together with opaque / transparent runs in the source */
static void structured_combo(req_t *r)
{
    int c = rng_n(100);
    if (c < 22) { if (r->m.kind == 'B') r->m.pixmode = 7; if (r->s.kind == 'B') r->s.pixmode = rng_chance(50) ? 2 : 7; }
    else if (c < 32) { if (r->m.kind == 'B') r->m.pixmode = 8; if (r->s.kind == 'B') r->s.pixmode = rng_chance(50) ? 7 : 8; }
    else if (c < 38) { if (r->s.kind == 'B') r->s.pixmode = 7; if (r->d.kind == 'B' && rng_chance(50)) r->d.pixmode = 7; }
}

static void synth_dest(img_t *d, uint32_t fmt, int dx, int dy, int w, int h)
{
    if (fmt == PIXMAN_any) fmt = pick_fmt(0);
    init_bits(d, fmt, dx + w + rng_n(4), dy + h + rng_n(3));
}

/* Source and mask as two views of ONE pixel buffer (the "pixbuf" idiom recognised by
 * pixman_image_composite32 when both offsets coincide).  All combinations of equal/unequal
 * (src_x, mask_x) and (src_y, mask_y) are drawn from small values, including src_y == mask_x and
 * src_x == mask_x == src_y with mask_y different, so that both "the pixbuf path must be taken" and
 * "must NOT be taken" are compared with general-only. */
static void pixbuf_pair(req_t *r, uint32_t srcfmt, int ca)
{
    int a = rng_n(4), b = rng_n(4), w, h;
    while (b == a) b = rng_n(4);
    switch (rng_n(8)) {
    case 0: r->sx = r->mx = r->sy = r->my = a; break;                      /* identical offsets, x == y */
    case 1: r->sx = r->mx = a; r->sy = r->my = b; break;                   /* identical offsets, x != y */
    case 2: case 3: r->sx = r->mx = r->sy = a; r->my = b; break;           /* rows differ, src_y == mask_x */
    case 4: r->sx = r->sy = r->my = a; r->mx = b; break;                   /* columns differ */
    case 5: r->sx = a; r->mx = b; r->sy = b; r->my = a; break;             /* both differ, src_y == mask_x */
    case 6: r->sx = r->mx = a; r->sy = b; r->my = a; break;                /* rows differ, mask_y == src_x */
    default: r->sx = rng_n(4); r->mx = rng_n(4); r->sy = rng_n(4); r->my = rng_n(4); break;
    }
    w = (r->sx > r->mx ? r->sx : r->mx) + r->w + rng_n(3);
    h = (r->sy > r->my ? r->sy : r->my) + r->h + rng_n(2);
    init_bits(&r->s, srcfmt, w, h);
    if (r->s.pixmode >= 4) r->s.pixmode = 1;                               /* rows must differ to be told apart */
    if (rng_chance(20)) r->s.repeat = rng_chance(50) ? PIXMAN_REPEAT_NORMAL : PIXMAN_REPEAT_PAD;
    r->m = r->s; r->m.kind = 'P';
    r->m.fmt = rng_chance(50) ? PIXMAN_a8b8g8r8 : PIXMAN_a8r8g8b8;
    r->m.ca = ca;
    if (rng_chance(8)) r->m.repeat = r->s.repeat ? 0 : PIXMAN_REPEAT_NORMAL;   /* different repeat: idiom not recognised */
}

static void gen_for_fast_path(FILE *f, int k, int idx, const pixman_fast_path_t *e, int v, int wide)
{
    uint32_t dfmt = e->dest_format == PIXMAN_any ? pick_fmt(0) : e->dest_format;
    req_t r; memset(&r, 0, sizeof r);
    r.kind = 'C'; snprintf(r.tag, sizeof r.tag, "fp:%s:%d", lvl_name[k], idx);
    r.op = e->op == PIXMAN_OP_any ? OPS[rng_n(rng_chance(70) ? 14 : NOPS)] : (int)e->op;
    r.w = wide ? wide_w(dfmt) : sweep_w(v + idx); r.h = 1 + (v + rng_n(2)) % 3;
    r.dx = rng_n(16); r.dy = rng_n(3); r.sx = rng_n(16); r.sy = rng_n(3); r.mx = rng_n(16); r.my = rng_n(3);
    synth_dest(&r.d, dfmt, r.dx, r.dy, r.w, r.h);
    if (e->src_format == PIXMAN_pixbuf || e->src_format == PIXMAN_rpixbuf) {
        pixbuf_pair(&r, e->src_format == PIXMAN_pixbuf ? PIXMAN_x8b8g8r8 : PIXMAN_x8r8g8b8, (e->mask_flags & FAST_PATH_COMPONENT_ALPHA) != 0);
    } else {
        synth_image(&r.s, e->src_format, e->src_flags, r.sx, r.sy, r.w, r.h, 0);
        synth_image(&r.m, e->mask_format, e->mask_flags, r.mx, r.my, r.w, r.h, 1);
        if (e->mask_format == PIXMAN_any && rng_chance(40)) { memset(&r.m, 0, sizeof r.m); r.m.kind = 'N'; }
    }
    if (rng_chance(12)) {       /* destination clip: one or two boxes inside the rectangle */
        r.d.nclip = 1; r.d.clip[0][0] = r.dx + rng_n(r.w); r.d.clip[0][1] = r.dy; r.d.clip[0][2] = r.d.clip[0][0] + 1 + rng_n(r.w); r.d.clip[0][3] = r.dy + r.h;
    }
    structured_combo(&r);
    put_req(f, &r);
}

static void gen_for_iter(FILE *f, int k, int idx, const pixman_iter_info_t *e, int v, int wide)
{
    req_t r; int dest_role = (e->iter_flags & ITER_DEST) && !(e->iter_flags & ITER_SRC);
    memset(&r, 0, sizeof r);
    r.kind = 'C'; snprintf(r.tag, sizeof r.tag, "it:%s:%d", lvl_name[k], idx);
    r.w = wide ? wide_w(rng_chance(50) ? PIXMAN_a8r8g8b8 : e->format) : sweep_w(v + idx); r.h = 1 + (v + rng_n(2)) % 3;
    r.dx = rng_n(16); r.dy = rng_n(3); r.sx = rng_n(16); r.sy = rng_n(3); r.mx = rng_n(16); r.my = rng_n(3);
    /* operators for which few whole-op paths exist, so that the iterators run in most configurations */
    { static const int O[] = { 3, 12, 4, 5, 6, 7, 8, 9, 10, 11, 0x30, 0x31, 0x3a, 13, 1 }; r.op = O[rng_n(15)]; }
    if (e->iter_flags & ITER_WIDE) { static const int O[] = { 13, 0x35, 0x36, 0x38, 0x3b, 3, 12 }; r.op = O[rng_n(7)]; }
    if (dest_role && (e->iter_flags & ITER_IGNORE_RGB)) r.op = rng_chance(80) ? 1 : 0;
    if (dest_role) {
        synth_dest(&r.d, e->format, r.dx, r.dy, r.w, r.h);
        synth_image(&r.s, rng_chance(30) ? PIXMAN_solid : PIXMAN_any, FAST_PATH_NARROW_FORMAT | (rng_chance(70) ? FAST_PATH_ID_TRANSFORM | FAST_PATH_SAMPLES_COVER_CLIP_NEAREST : 0), r.sx, r.sy, r.w, r.h, 0);
        if ((e->iter_flags & ITER_WIDE) && r.s.kind == 'B' && rng_chance(50)) r.s.fmt = WIDE[rng_n(NW)], r.s.stride = (r.s.stride < 0 ? -1 : 1) * (r.s.w * 16 + 16);
    } else {
        uint32_t dfmt = (e->iter_flags & ITER_WIDE) && rng_chance(60) ? WIDE[rng_n(NW)] : PIXMAN_any;
        if (dfmt == PIXMAN_any) synth_dest(&r.d, dfmt, r.dx, r.dy, r.w, r.h);
        else { init_bits(&r.d, dfmt, r.dx + r.w + rng_n(3), r.dy + r.h + rng_n(2)); }
        if (e->format == PIXMAN_solid) synth_image(&r.s, PIXMAN_solid, e->image_flags, r.sx, r.sy, r.w, r.h, 0);
        else synth_image(&r.s, e->format, e->image_flags | ((e->iter_flags & ITER_NARROW) ? FAST_PATH_NARROW_FORMAT : 0), r.sx, r.sy, r.w, r.h, 0);
    }
    if (rng_chance(35)) synth_image(&r.m, rng_chance(40) ? PIXMAN_solid : rng_chance(50) ? PIXMAN_a8 : PIXMAN_a8r8g8b8, FAST_PATH_ID_TRANSFORM | FAST_PATH_SAMPLES_COVER_CLIP_NEAREST, r.mx, r.my, r.w, r.h, 1);
    else { r.m.kind = 'N'; }
    structured_combo(&r);
    put_req(f, &r);
}

static void gen_random(FILE *f, int n)
{
    req_t r; uint32_t fl;
    memset(&r, 0, sizeof r);
    r.kind = 'C'; snprintf(r.tag, sizeof r.tag, "rnd:%d", n);
    r.op = OPS[rng_n(rng_chance(60) ? 14 : NOPS)];
    uint32_t rdfmt = pick_fmt(1);
    r.w = rng_chance(75) ? rng_range(1, 35) : rng_chance(60) ? rng_range(1, 70) : wide_w(rdfmt); r.h = rng_range(1, 4);
    r.dx = rng_n(16); r.dy = rng_n(3); r.sx = rng_range(-3, 16); r.sy = rng_range(-2, 3); r.mx = rng_range(-3, 16); r.my = rng_range(-2, 3);
    synth_dest(&r.d, rdfmt, r.dx, r.dy, r.w, r.h);
    if (r.d.fmt == PIXMAN_rgba_float || r.d.fmt == PIXMAN_rgb_float) r.d.stride = (r.d.stride < 0 ? -1 : 1) * (r.d.w * 16 + 16 * rng_n(2));
    /* source */
    fl = 0;
    if (rng_chance(55)) fl |= FAST_PATH_ID_TRANSFORM; else if (rng_chance(50)) fl |= FAST_PATH_SCALE_TRANSFORM | FAST_PATH_AFFINE_TRANSFORM; else if (rng_chance(70)) fl |= FAST_PATH_AFFINE_TRANSFORM; else fl |= FAST_PATH_HAS_TRANSFORM;
    if (rng_chance(50)) fl |= FAST_PATH_NEAREST_FILTER | FAST_PATH_NO_CONVOLUTION_FILTER; else if (rng_chance(70)) fl |= FAST_PATH_BILINEAR_FILTER | FAST_PATH_NO_CONVOLUTION_FILTER;
    fl |= repeat_flags(rng_chance(40) ? 0 : rng_n(4));
    if (rng_chance(15)) { init_solid(&r.s, rng_chance(20)); }
    else if (rng_chance(8)) { memset(&r.s, 0, sizeof r.s); r.s.kind = 'L'; r.s.w = rng_range(1, 40); r.s.h = rng_range(1, 5); r.s.seed = rng_u64() >> 1; r.s.repeat = rng_n(4); r.s.pixmode = rng_chance(30) ? 2 : 0; r.s.filter = PIXMAN_FILTER_NEAREST; }
    else { synth_image(&r.s, PIXMAN_any, fl, r.sx, r.sy, r.w, r.h, 0);
           if (is_float_fmt(r.s.fmt)) r.s.stride = (r.s.stride < 0 ? -1 : 1) * (r.s.w * 16 + 16 * rng_n(2)); }
    /* mask */
    if (rng_chance(45)) { memset(&r.m, 0, sizeof r.m); r.m.kind = 'N'; }
    else if (rng_chance(25)) { init_solid(&r.m, rng_chance(20)); r.m.ca = rng_chance(30); }
    else {
        fl = rng_chance(70) ? FAST_PATH_ID_TRANSFORM | FAST_PATH_NEAREST_FILTER : rng_chance(50) ? FAST_PATH_SCALE_TRANSFORM | FAST_PATH_AFFINE_TRANSFORM : FAST_PATH_AFFINE_TRANSFORM;
        fl |= repeat_flags(rng_chance(50) ? 0 : rng_n(4));
        synth_image(&r.m, rng_chance(40) ? PIXMAN_a8 : rng_chance(40) ? PIXMAN_a8r8g8b8 : PIXMAN_any, fl, r.mx, r.my, r.w, r.h, 1);
        if (is_float_fmt(r.m.fmt)) r.m.stride = (r.m.stride < 0 ? -1 : 1) * (r.m.w * 16 + 16 * rng_n(2));
    }
    if (rng_chance(5)) {       /* source and mask sharing one buffer, offsets equal or not (pixbuf idiom and its near misses) */
        static const uint32_t PS[] = { PIXMAN_x8b8g8r8, PIXMAN_x8r8g8b8, PIXMAN_x8b8g8r8, PIXMAN_x8r8g8b8, PIXMAN_a8r8g8b8 };
        if (rng_chance(70)) r.op = rng_chance(60) ? 3 : rng_chance(50) ? 1 : 12;
        pixbuf_pair(&r, PS[rng_n(5)], rng_chance(15));
    } else
    if (rng_chance(6)) {       /* opaque masks (elided for dispatch): narrow and wide, unified and component alpha */
        static const uint32_t OM[] = { PIXMAN_x8r8g8b8, PIXMAN_r5g6b5, PIXMAN_x2r10g10b10, PIXMAN_x2b10g10r10, PIXMAN_rgb_float, PIXMAN_x8b8g8r8, PIXMAN_r8g8b8 };
        synth_image(&r.m, OM[rng_n(7)], FAST_PATH_ID_TRANSFORM | FAST_PATH_NEAREST_FILTER | (rng_chance(50) ? FAST_PATH_SAMPLES_COVER_CLIP_NEAREST : repeat_flags(1 + rng_n(3))), r.mx, r.my, r.w, r.h, 1);
        r.m.ca = rng_chance(40);
    }
    if (rng_chance(20)) {
        int i; r.d.nclip = rng_range(1, 3);
        for (i = 0; i < r.d.nclip; i++) { int x = rng_range(-2, r.d.w), y = rng_range(-1, r.d.h); r.d.clip[i][0] = x; r.d.clip[i][1] = y; r.d.clip[i][2] = x + rng_range(1, 20); r.d.clip[i][3] = y + rng_range(1, 3); }
    }
    if (rng_chance(4) && r.d.kind == 'B') r.d.dither = rng_range(1, 5);
    structured_combo(&r);
    put_req(f, &r);
}

static void gen_bltfill(FILE *f, int n)
{
    static const uint32_t BF[] = { PIXMAN_a8r8g8b8, PIXMAN_r5g6b5, PIXMAN_a8, PIXMAN_a1, PIXMAN_a4, PIXMAN_r8g8b8 };
    req_t r; memset(&r, 0, sizeof r);
    r.w = rng_chance(65) ? rng_range(1, 35) : rng_chance(60) ? rng_range(1, 130) : rng_range(130, 300); r.h = rng_range(1, 4);
    r.dx = rng_n(20); r.dy = rng_n(3); r.sx = rng_n(20); r.sy = rng_n(3);
    if (n & 1) {
        uint32_t sf = BF[rng_n(rng_chance(80) ? 3 : 6)], df = rng_chance(85) ? sf : BF[rng_n(6)];
        r.kind = 'B'; snprintf(r.tag, sizeof r.tag, "blt:%d", n);
        init_bits(&r.s, sf, r.sx + r.w + rng_n(3), r.sy + r.h + rng_n(2)); init_bits(&r.d, df, r.dx + r.w + rng_n(3), r.dy + r.h + rng_n(2));
    } else {
        uint32_t df = BF[rng_n(rng_chance(80) ? 3 : 6)];
        r.kind = 'F'; snprintf(r.tag, sizeof r.tag, "fill:%d", n);
        init_bits(&r.d, df, r.dx + r.w + rng_n(3), r.dy + r.h + rng_n(2));
        r.filler = rng_chance(30) ? (rng_chance(50) ? 0 : 0xffffffffu) : rng_u32();
    }
    put_req(f, &r);
}

static int do_gen(uint64_t seed, int per_entry, int nrandom, int nbf, const char *ops)
{
    FILE *f = fopen(ops, "w"); int k, i, v;
    if (!f) die("cannot open output");
    discover_chain();
    rng_seed(seed);
    for (k = 0; k < nlev; k++) {
        for (i = 0; i < nfp[k]; i++) for (v = 0; v < per_entry; v++) gen_for_fast_path(f, k, i, &orig_fp[k][i], v + (int)(seed % 35) * 3, v % 6 == 5);
        for (i = 0; i < nit[k]; i++) for (v = 0; v < per_entry; v++) gen_for_iter(f, k, i, &orig_it[k][i], v + (int)(seed % 35) * 3, v % 6 == 5);
    }
    for (i = 0; i < nrandom; i++) gen_random(f, i);
    for (i = 0; i < nbf; i++) gen_bltfill(f, i);
    fclose(f);
    return 0;
}

static int do_tables(const char *outp)
{
    FILE *f = fopen(outp, "w"); int k, i;
    if (!f) die("cannot open output");
    discover_chain();
    for (k = 0; k < nlev; k++) {
        fprintf(f, "IMP %s fast_paths=%d iters=%d blt=%d fill=%d\n", lvl_name[k], nfp[k], nit[k], lvl_imp[k]->blt != NULL, lvl_imp[k]->fill != NULL);
        for (i = 0; i < nfp[k]; i++) { const pixman_fast_path_t *p = &orig_fp[k][i];
            fprintf(f, "FP %s %d %d %x %x %x %x %x %x\n", lvl_name[k], i, p->op, p->src_format, p->src_flags, p->mask_format, p->mask_flags, p->dest_format, p->dest_flags); }
        for (i = 0; i < nit[k]; i++) { const pixman_iter_info_t *q = &orig_it[k][i];
            fprintf(f, "IT %s %d %x %x %x\n", lvl_name[k], i, q->format, q->image_flags, q->iter_flags); }
    }
    fclose(f);
    return 0;
}

/* ------------------------------------------------------------------ D1: lookup histories */
typedef struct { int op; uint32_t sf, sfl, mf, mfl, df, dfl; } lkey_t;

static int walk(pixman_implementation_t *top, const lkey_t *q, int *lev, int *idx)
{
    /* independent statement of the table answer: first entry along the chain that admits the request */
    pixman_implementation_t *imp; int l = 0;
    for (imp = top; imp; imp = imp->fallback, l++) {
        const pixman_fast_path_t *e; int i = 0;
        for (e = imp->fast_paths; e->op != PIXMAN_OP_NONE; e++, i++) {
            int op_ok = e->op == (pixman_op_t)q->op || e->op == PIXMAN_OP_any;
            int s_ok = e->src_format == q->sf || e->src_format == PIXMAN_any;
            int m_ok = e->mask_format == q->mf || e->mask_format == PIXMAN_any;
            int d_ok = e->dest_format == q->df || e->dest_format == PIXMAN_any;
            int f_ok = !(e->src_flags & ~q->sfl) && !(e->mask_flags & ~q->mfl) && !(e->dest_flags & ~q->dfl);
            if (op_ok && s_ok && m_ok && d_ok && f_ok) { *lev = l; *idx = i; return 1; }
        }
    }
    return 0;
}

static pixman_implementation_t *flush_chain;
static void flush_cache(void)
{
    static pixman_fast_path_t tab[2]; int i; pixman_implementation_t *oi; pixman_composite_func_t of;
    if (!flush_chain) { tab[0].op = PIXMAN_OP_any; tab[0].src_format = tab[0].mask_format = tab[0].dest_format = PIXMAN_any; tab[0].func = trs[255]; tab[1].op = PIXMAN_OP_NONE;
        flush_chain = _pixman_implementation_create(NULL, tab); }
    for (i = 0; i < 8; i++)
        _pixman_implementation_lookup_composite(flush_chain, (pixman_op_t)61, 0x7777, 0x80000000u | (uint32_t)i, 0x7777, 0, 0x7777, 0, &oi, &of);
}

static int do_lookup(uint64_t seed, int n, const char *ops, const char *implp)
{
    FILE *fo = fopen(ops, "w"), *fi = fopen(implp, "w"); int c, live_bad = 0, live_n = 0;
    static const uint32_t F[] = { 0x20028888, 0x10020565, 0x08018000 };
    if (!fo || !fi) die("cannot open files");
    discover_chain();
    rng_seed(seed ^ 0x10041004);
    for (c = 0; c < n; c++) {
        /* synthetic chain: small domains so that matches, shadowing, cache hits and evictions are frequent */
        int nl = rng_range(1, 4), l, i, nk, base = 0; pixman_implementation_t *chain = NULL, *imps[4]; pixman_fast_path_t *tabs[4]; int ne[4];
        int catch_all = rng_chance(80);
        fprintf(fo, "lookup %d", nl);
        for (l = nl - 1; l >= 0; l--) {           /* build from the last fallback up */
            ne[l] = rng_range(0, 5) + ((l == nl - 1 && catch_all) ? 1 : 0);
            tabs[l] = calloc(ne[l] + 1, sizeof(pixman_fast_path_t));
            for (i = 0; i < ne[l]; i++) {
                pixman_fast_path_t *e = &tabs[l][i];
                e->op = rng_chance(20) ? PIXMAN_OP_any : (pixman_op_t)(rng_chance(50) ? 3 : 12);
                e->src_format = rng_chance(20) ? PIXMAN_any : F[rng_n(3)]; e->mask_format = rng_chance(30) ? PIXMAN_any : rng_chance(50) ? 0 : F[rng_n(3)]; e->dest_format = rng_chance(20) ? PIXMAN_any : F[rng_n(2)];
                e->src_flags = rng_n(8); e->mask_flags = rng_n(4); e->dest_flags = rng_n(4);
                if (l == nl - 1 && catch_all && i == ne[l] - 1) { e->op = PIXMAN_OP_any; e->src_format = e->mask_format = e->dest_format = PIXMAN_any; e->src_flags = e->mask_flags = e->dest_flags = 0; }
            }
            tabs[l][ne[l]].op = PIXMAN_OP_NONE;
        }
        for (l = nl - 1; l >= 0; l--) { chain = _pixman_implementation_create(chain, tabs[l]); imps[l] = chain; }
        for (l = 0; l < nl; l++) {
            fprintf(fo, " %d", ne[l]);
            for (i = 0; i < ne[l]; i++) { pixman_fast_path_t *e = &tabs[l][i]; e->func = trs[(base + i) & 255];
                fprintf(fo, " %d %u %u %u %u %u %u", e->op, e->src_format, e->src_flags, e->mask_format, e->mask_flags, e->dest_format, e->dest_flags); }
            base += ne[l];
        }
        nk = rng_range(1, 60);
        fprintf(fo, " H %d", nk);
        flush_cache();
        {
            lkey_t pool[12]; int np = rng_range(2, 12);
            for (i = 0; i < np; i++) { pool[i].op = rng_chance(50) ? 3 : rng_chance(80) ? 12 : 1; pool[i].sf = F[rng_n(3)]; pool[i].mf = rng_chance(50) ? 0 : F[rng_n(3)]; pool[i].df = F[rng_n(2)];
                pool[i].sfl = rng_n(8); pool[i].mfl = rng_n(4); pool[i].dfl = rng_n(4); }
            for (i = 0; i < nk; i++) {
                lkey_t q = pool[rng_n(np)]; pixman_implementation_t *oi = NULL; pixman_composite_func_t of = NULL; int rl = -1, ri = -1, b2 = 0, j;
                fprintf(fo, " %d %u %u %u %u %u %u", q.op, q.sf, q.sfl, q.mf, q.mfl, q.df, q.dfl);
                _pixman_implementation_lookup_composite(chain, (pixman_op_t)q.op, q.sf, q.sfl, q.mf, q.mfl, q.df, q.dfl, &oi, &of);
                for (l = 0; l < nl; l++) { if (imps[l] == oi) { rl = l; for (j = 0; j < ne[l]; j++) if (tabs[l][j].func == of) { ri = j; break; } } b2 += ne[l]; }
                if (oi == NULL) fprintf(fi, "%s-", i ? " " : ""); else fprintf(fi, "%s%d:%d", i ? " " : "", rl, ri);
            }
        }
        fputc('\n', fo); fputc('\n', fi);
        for (l = 0; l < nl; l++) { free(imps[l]); free(tabs[l]); }
    }
    /* live chain: histories over keys derived from the real tables; the answer must be the table walk */
    {
        pixman_implementation_t *top = lvl_imp[0]; int h;
        for (h = 0; h < n; h++) {
            lkey_t pool[14]; int np = rng_range(3, 14), i, nk = rng_range(5, 80);
            for (i = 0; i < np; i++) {
                int l = rng_n(nlev), j; const pixman_fast_path_t *e;
                while (nfp[l] == 0) l = (l + 1) % nlev;
                j = rng_n(nfp[l]); e = &orig_fp[l][j];
                pool[i].op = e->op == PIXMAN_OP_any ? OPS[rng_n(NOPS)] : (int)e->op; pool[i].sf = e->src_format == PIXMAN_any ? PIXMAN_a8r8g8b8 : e->src_format;
                pool[i].mf = e->mask_format == PIXMAN_any ? 0 : e->mask_format; pool[i].df = e->dest_format == PIXMAN_any ? PIXMAN_a8r8g8b8 : e->dest_format;
                pool[i].sfl = e->src_flags | (rng_chance(50) ? rng_u32() : 0); pool[i].mfl = e->mask_flags | (rng_chance(50) ? rng_u32() : 0); pool[i].dfl = e->dest_flags | (rng_chance(30) ? rng_u32() : 0);
                if (rng_chance(15)) pool[i].sfl &= ~(1u << rng_n(27));        /* drop a required flag: falls through to a later entry */
            }
            for (i = 0; i < nk; i++) {
                lkey_t q = pool[rng_n(np)]; pixman_implementation_t *oi = NULL; pixman_composite_func_t of = NULL; int wl, wi;
                _pixman_implementation_lookup_composite(top, (pixman_op_t)q.op, q.sf, q.sfl, q.mf, q.mfl, q.df, q.dfl, &oi, &of);
                if (!walk(top, &q, &wl, &wi)) die("live chain: no entry admits a request (general's catch-all missing?)");
                live_n++;
                if (oi != lvl_imp[wl] || of != lvl_imp[wl]->fast_paths[wi].func) {
                    if (live_bad++ < 5) fprintf(fi, "LIVE-MISMATCH history %d step %d key %d %x %x %x %x %x %x walk=%s:%d got=%s\n", h, i, q.op, q.sf, q.sfl, q.mf, q.mfl, q.df, q.dfl, lvl_name[wl], wi, level_of(oi) >= 0 ? lvl_name[level_of(oi)] : "?");
                }
            }
        }
        fprintf(fi, "LIVE %d lookups %d mismatches\n", live_n, live_bad);
    }
    fclose(fo); fclose(fi);
    return 0;
}

int main(int argc, char **argv)
{
    if (argc >= 3 && !strcmp(argv[1], "tables")) return do_tables(argv[2]);
    if (argc >= 7 && !strcmp(argv[1], "gen")) return do_gen(strtoull(argv[2], NULL, 10), atoi(argv[3]), atoi(argv[4]), atoi(argv[5]), argv[6]);
    if (argc >= 4 && !strcmp(argv[1], "exec")) return do_exec(argv[2], argv[3]);
    if (argc >= 6 && !strcmp(argv[1], "lookup")) return do_lookup(strtoull(argv[2], NULL, 10), atoi(argv[3]), argv[4], argv[5]);
    fprintf(stderr, "usage: crossimpl tables|gen|exec|lookup ...\n");
    return 2;
}

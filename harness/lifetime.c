/* Correspondence harness for image lifetime (C20).
 *   lifetime gen  <seed> <n> <ops_out> <impl_out>     generate n histories, run them, write both
 *   lifetime exec <ops_in> <impl_out>                 replay histories (corpus / shrinking)
 * One history per line: "hist <op> <op> ...", see lean/Driver/Lifetime.lean for the reply format.
 *
 * White-box: includes pixman-glyph.c (for cache->freeze_count / n_glyphs) and reads image fields
 * through pixman-private.h.  Linked with -Wl,--wrap=malloc,calloc,realloc,free: every block the
 * library allocates during a call is entered in a table and must leave it exactly once
 * ("live" = size of the table; a free of an image struct is noted as "~id"); built with
 * AddressSanitizer so that a double free / use after free aborts the run with a report.
 *
 * The harness is a client that respects ownership: it never passes an image it holds no
 * reference to (such a request is answered "X" without calling the library).                */
#include "pixman-glyph.c"
#include <stdio.h>
#include <string.h>
#include <stdlib.h>
#include "rng.h"

void *__real_malloc (size_t); void *__real_calloc (size_t, size_t);
void *__real_realloc (void *, size_t); void __real_free (void *);

#define MAXIMG 256
#define MAXBLK 16384
static volatile int in_lib;   /* volatile: gcc knows malloc() does not read globals and would sink the store */
static void *blk[MAXBLK]; static int nblk, badfree;
static pixman_image_t *imgs[MAXIMG]; static int alive[MAXIMG], ext[MAXIMG], nimg;
static void *clientbuf[MAXIMG];
static int freed_now[MAXIMG], nfreed_now;
static int fired_now[MAXIMG][2], nfired_now;

static void blk_add (void *p) { if (p && nblk < MAXBLK) blk[nblk++] = p; }
static int blk_del (void *p) { for (int i = nblk - 1; i >= 0; i--) if (blk[i] == p) { blk[i] = blk[--nblk]; return 1; } return 0; }
static void note_free (void *p) { for (int i = 0; i < nimg; i++) if (alive[i] && (void *)imgs[i] == p) { alive[i] = 0; if (nfreed_now < MAXIMG) freed_now[nfreed_now++] = i; } }

/* failure injection: "f<k>/<op>" makes the k-th allocation request inside that library call return NULL */
static int fail_k;              /* of the request being executed (0 = none) */
static volatile int fail_cd;    /* countdown while inside the designated call */
static int should_fail (void) { return in_lib && fail_cd > 0 && --fail_cd == 0; }
void *__wrap_malloc (size_t n) { if (should_fail ()) return NULL; void *p = __real_malloc (n); if (in_lib) blk_add (p); return p; }
void *__wrap_calloc (size_t a, size_t b) { if (should_fail ()) return NULL; void *p = __real_calloc (a, b); if (in_lib) blk_add (p); return p; }
void *__wrap_realloc (void *o, size_t n)
{
    if (should_fail ()) return NULL;
    if (in_lib && o && !blk_del (o)) badfree++;
    void *p = __real_realloc (o, n);
    if (in_lib) blk_add (p);
    return p;
}
void __wrap_free (void *p)
{
    /* a pointer the library never allocated (or already freed) is counted and NOT handed to the
     * allocator, so that the history goes on and the count can be compared with the model */
    if (p && in_lib) { note_free (p); if (!blk_del (p)) { badfree++; return; } }
    __real_free (p);
}
#define LIB(stmt) do { in_lib = 1; fail_cd = fail_k; stmt; fail_cd = 0; in_lib = 0; } while (0)

static int id_of (const void *p) { for (int i = 0; i < nimg; i++) if (alive[i] && (const void *)imgs[i] == p) return i; return -1; }

static void on_destroy (pixman_image_t *image, void *data)
{
    if (nfired_now < MAXIMG) { fired_now[nfired_now][0] = id_of (image); fired_now[nfired_now][1] = (int)(intptr_t)data; nfired_now++; }
}

static const pixman_format_code_t fmts[] = { PIXMAN_a8, PIXMAN_a8r8g8b8, PIXMAN_a1, PIXMAN_r5g6b5, PIXMAN_x8r8g8b8 };
#define NFMT 5

static pixman_glyph_cache_t *cache;
static FILE *fo;

static void obs (int i)
{
    pixman_image_t *im = imgs[i];
    image_common_t *c = &im->common;
    fprintf (fo, "%d=%d,%d,", i, c->ref_count, c->alpha_count);
    if (c->alpha_map) fprintf (fo, "%d,%d,%d,", id_of (c->alpha_map), c->alpha_map->common.ref_count, c->alpha_map->common.alpha_count);
    else fprintf (fo, "-,-,-,");
    fprintf (fo, "%d,%d,%d,%d,%d,%d,", c->alpha_map ? c->alpha_origin_x : 0, c->alpha_map ? c->alpha_origin_y : 0,   /* uninitialised until a map is set */
             c->transform ? (int)(c->transform->matrix[0][0] >> 16) - 1 : 0, (int)c->filter,
             c->filter_params != NULL, c->n_filter_params);
    fprintf (fo, "%d,%d,%d,", c->have_clip_region != 0,
             (c->clip_region.data && c->clip_region.data->size) ? (int)c->clip_region.data->size : 0,
             pixman_region32_n_rects (&c->clip_region));
    fprintf (fo, "%d,%d,%d,%d", c->destroy_func != NULL, (int)(intptr_t)pixman_image_get_destroy_data (im),
             im->type == BITS && im->bits.free_me != NULL,
             (im->type == LINEAR || im->type == RADIAL || im->type == CONICAL) && im->gradient.stops != NULL);
}

static int new_image (pixman_image_t *p, void *buf)
{
    if (!p) { free (buf); return -1; }
    if (nimg >= MAXIMG) { fprintf (stderr, "too many images\n"); exit (3); }
    imgs[nimg] = p; alive[nimg] = 1; ext[nimg] = 1; clientbuf[nimg] = buf;
    return nimg++;
}

static int held (int i) { return i >= 0 && i < nimg && ext[i] > 0; }
/* usable as the alpha_map argument without a reference of the client's own: it is at this moment
 * the alpha map of an image the client holds (which keeps it alive) */
static int borrowed (int m)
{
    if (m < 0 || m >= nimg || !alive[m]) return 0;
    for (int p = 0; p < nimg; p++) if (held (p) && (void *)imgs[p]->common.alpha_map == (void *)imgs[m]) return 1;
    return 0;
}

/* glyph keys: 0 and 1 hash to the LAST slot of the table (1 collides and wraps to slot 0), 2 and 3 to
 * the slot before it (3 is pushed into the last slot when 2 is present); 4.. are arbitrary */
static void *keyptr (int k)
{
    static void *tab[4]; static int done;
    if (!done) {
        int n0 = 0, n1 = 0;
        for (uintptr_t n = 1; n0 < 2 || n1 < 2; n++) {
            unsigned s = hash (NULL, (void *)n) & HASH_MASK;
            if (s == (unsigned)HASH_MASK && n0 < 2) tab[n0++] = (void *)n;
            else if (s == (unsigned)HASH_MASK - 1 && n1 < 2) tab[2 + n1++] = (void *)n;
        }
        done = 1;
    }
    return k >= 0 && k < 4 ? tab[k] : (void *)(uintptr_t)(0x100000 + k);
}

static pixman_region32_t *mk_region32 (pixman_region32_t *r, int n)
{
    pixman_box32_t b[64];
    if (n > 64) n = 64;
    for (int i = 0; i < n; i++) { b[i].x1 = 0; b[i].x2 = 1 + i % 3; b[i].y1 = 2 * i; b[i].y2 = 2 * i + 1; }
    pixman_region32_init_rects (r, b, n);
    return r;
}
static pixman_region16_t *mk_region16 (pixman_region16_t *r, int n)
{
    pixman_box16_t b[64];
    if (n > 64) n = 64;
    for (int i = 0; i < n; i++) { b[i].x1 = 0; b[i].x2 = 1 + i % 3; b[i].y1 = 2 * i; b[i].y2 = 2 * i + 1; }
    pixman_region_init_rects (r, b, n);
    return r;
}

/* executes one operation token; prints "<res>@<live>..." */
static void exec_tok (const char *tok)
{
    char t[256]; char *f[8]; int nf = 0;
    fail_k = 0;
    if (tok[0] == 'f' && strchr (tok, '/')) { fail_k = atoi (tok + 1); tok = strchr (tok, '/') + 1; }
    strncpy (t, tok, sizeof t - 1); t[sizeof t - 1] = 0;
    for (char *s = t; nf < 8; ) { f[nf++] = s; s = strchr (s, ':'); if (!s) break; *s++ = 0; }
    const char *res = "?"; char resbuf[32];
    int inv[2], ninv = 0;
    nfreed_now = nfired_now = 0;
#define ARGI(k) (atoi (f[k]))
#define ISNULL(k) (f[k][0] == '-' && f[k][1] == 0)
    if (!strcmp (f[0], "B") && nf == 5) {
        int w = ARGI (1), h = ARGI (2), own = ARGI (3); pixman_format_code_t fmt = fmts[ARGI (4) % NFMT];
        int stride = ((w * PIXMAN_FORMAT_BPP (fmt) + 31) >> 5) * 4;
        void *buf = own ? NULL : calloc (stride * h + 4, 1);
        pixman_image_t *p; LIB (p = pixman_image_create_bits (fmt, w, h, buf, own ? 0 : stride));
        int id = new_image (p, buf);
        if (id < 0) res = "N"; else { snprintf (resbuf, sizeof resbuf, "+%d", id); res = resbuf; inv[ninv++] = id; }
    } else if (!strcmp (f[0], "S") && nf == 1) {
        pixman_color_t col = { 0x8000, 0x4000, 0x2000, 0xc000 };
        pixman_image_t *p; LIB (p = pixman_image_create_solid_fill (&col));
        int id = new_image (p, NULL);
        if (id < 0) res = "N"; else { snprintf (resbuf, sizeof resbuf, "+%d", id); res = resbuf; inv[ninv++] = id; }
    } else if ((!strcmp (f[0], "L") || !strcmp (f[0], "R") || !strcmp (f[0], "C")) && nf == 2) {
        int n = ARGI (1); pixman_gradient_stop_t st[16]; if (n > 16) n = 16;
        for (int i = 0; i < n; i++) { st[i].x = i * 65536 / (n > 1 ? n - 1 : 1); st[i].color.red = 0x1000 * i; st[i].color.green = 0; st[i].color.blue = 0xffff; st[i].color.alpha = 0xffff; }
        pixman_point_fixed_t p1 = { 0, 0 }, p2 = { 65536 * 4, 65536 * 4 };
        pixman_image_t *p;
        if (f[0][0] == 'L') LIB (p = pixman_image_create_linear_gradient (&p1, &p2, st, n));
        else if (f[0][0] == 'R') LIB (p = pixman_image_create_radial_gradient (&p1, &p2, 0, 65536 * 3, st, n));
        else LIB (p = pixman_image_create_conical_gradient (&p1, 65536 * 45, st, n));
        int id = new_image (p, NULL);
        if (id < 0) res = "N"; else { snprintf (resbuf, sizeof resbuf, "+%d", id); res = resbuf; inv[ninv++] = id; }
    } else if (!strcmp (f[0], "r") && nf == 2) {
        int i = ARGI (1);
        if (!held (i)) res = "X"; else { LIB (pixman_image_ref (imgs[i])); ext[i]++; res = "-"; inv[ninv++] = i; }
    } else if (!strcmp (f[0], "u") && nf == 2) {
        int i = ARGI (1);
        if (!held (i)) res = "X"; else { pixman_bool_t b; ext[i]--; LIB (b = pixman_image_unref (imgs[i])); res = b ? "T" : "F"; inv[ninv++] = i; }
    } else if (!strcmp (f[0], "A") && nf == 5) {
        int i = ARGI (1), m = ISNULL (2) ? -1 : ARGI (2);
        if (!held (i) || (m >= 0 && !held (m) && !borrowed (m))) res = "X";
        else { LIB (pixman_image_set_alpha_map (imgs[i], m >= 0 ? imgs[m] : NULL, (int16_t)ARGI (3), (int16_t)ARGI (4))); res = "-"; inv[ninv++] = i; if (m >= 0 && m != i) inv[ninv++] = m; }
    } else if (!strcmp (f[0], "T") && nf == 3) {
        int i = ARGI (1);
        if (!held (i)) res = "X";
        else {
            pixman_transform_t tr; pixman_transform_init_identity (&tr);
            if (!ISNULL (2)) tr.matrix[0][0] = (ARGI (2) + 1) << 16;
            pixman_bool_t b; LIB (b = pixman_image_set_transform (imgs[i], ISNULL (2) ? NULL : &tr)); res = b ? "T" : "F"; inv[ninv++] = i;
        }
    } else if (!strcmp (f[0], "F") && nf == 4) {
        int i = ARGI (1), flt = ARGI (2); pixman_fixed_t par[64]; int np = 0; int isnull = ISNULL (3);
        if (!isnull && strcmp (f[3], "e")) for (char *s = f[3]; s && np < 64; ) { par[np++] = atoi (s); s = strchr (s, ','); if (s) s++; }
        if (!held (i) || (flt == 6 && (isnull || np < 4))) res = "X";
        else { pixman_bool_t b; LIB (b = pixman_image_set_filter (imgs[i], (pixman_filter_t)flt, isnull ? NULL : par, np)); res = b ? "T" : "F"; inv[ninv++] = i; }
    } else if (!strcmp (f[0], "K") && nf == 3) {
        int i = ARGI (1);
        if (!held (i)) res = "X";
        else {
            pixman_region32_t r; pixman_bool_t b;
            if (ISNULL (2)) LIB (b = pixman_image_set_clip_region32 (imgs[i], NULL));
            else { mk_region32 (&r, ARGI (2)); LIB (b = pixman_image_set_clip_region32 (imgs[i], &r)); pixman_region32_fini (&r); }
            res = b ? "T" : "F"; inv[ninv++] = i;
        }
    } else if (!strcmp (f[0], "k") && nf == 3) {
        int i = ARGI (1);
        if (!held (i)) res = "X";
        else {
            pixman_region16_t r; pixman_bool_t b;
            if (ISNULL (2)) LIB (b = pixman_image_set_clip_region (imgs[i], NULL));
            else { mk_region16 (&r, ARGI (2)); LIB (b = pixman_image_set_clip_region (imgs[i], &r)); pixman_region_fini (&r); }
            res = b ? "T" : "F"; inv[ninv++] = i;
        }
    } else if (!strcmp (f[0], "D") && nf == 4) {
        int i = ARGI (1);
        if (!held (i)) res = "X";
        else { LIB (pixman_image_set_destroy_function (imgs[i], ARGI (2) ? on_destroy : NULL, (void *)(intptr_t)ARGI (3))); res = "-"; inv[ninv++] = i; }
    } else if (!strcmp (f[0], "I") && nf == 3) {
        /* pixman_image_set_indexed: palette 'p' is palettes[p] (never dereferenced here), '-' NULL */
        static pixman_indexed_t palettes[4];
        int i = ARGI (1);
        if (!held (i)) res = "X";
        else { LIB (pixman_image_set_indexed (imgs[i], ISNULL (2) ? NULL : &palettes[ARGI (2) & 3])); res = "-"; inv[ninv++] = i; }
    } else if (!strcmp (f[0], "GC") && nf == 1) {
        if (cache) res = "X"; else { LIB (cache = pixman_glyph_cache_create ()); res = "-"; }
    } else if (!strcmp (f[0], "GD") && nf == 1) {
        if (!cache) res = "X"; else { int frozen = cache->freeze_count != 0; LIB (pixman_glyph_cache_destroy (cache)); if (!frozen) cache = NULL; res = "-"; }
    } else if (!strcmp (f[0], "GF") && nf == 1) {
        if (!cache) res = "X"; else { LIB (pixman_glyph_cache_freeze (cache)); res = "-"; }
    } else if (!strcmp (f[0], "GT") && nf == 1) {
        if (!cache) res = "X"; else { LIB (pixman_glyph_cache_thaw (cache)); res = "-"; }
    } else if (!strcmp (f[0], "GI") && nf == 3) {
        int key = ARGI (1), i = ARGI (2);
        if (!cache || !held (i) || pixman_glyph_cache_lookup (cache, NULL, keyptr (key))) res = "X";
        else {
            const void *g; int before = nblk;
            LIB (g = pixman_glyph_cache_insert (cache, NULL, keyptr (key), 0, 0, imgs[i]));
            if (g) {   /* the cache's private copy becomes an image the model numbers like any other */
                if (nimg >= MAXIMG) exit (3);
                imgs[nimg] = ((glyph_t *)g)->image; alive[nimg] = 1; ext[nimg] = 0; clientbuf[nimg] = NULL; nimg++;
            }
            (void)before;
            res = g ? "T" : "F"; inv[ninv++] = i;
        }
    } else if (!strcmp (f[0], "GR") && nf == 2) {
        if (!cache) res = "X"; else { LIB (pixman_glyph_cache_remove (cache, NULL, keyptr (ARGI (1)))); res = "-"; }
    } else res = "bad-op";
    fprintf (fo, "%s@%d", res, nblk);
    for (int k = 0; k < nfired_now; k++) fprintf (fo, "!%d.%d", fired_now[k][0], fired_now[k][1]);
    /* freed image structs in ascending id order */
    for (int i = 0; i < nimg; i++) for (int k = 0; k < nfreed_now; k++) if (freed_now[k] == i) fprintf (fo, "~%d", i);
    for (int k = 0; k < ninv; k++) if (held (inv[k])) { fputc (';', fo); obs (inv[k]); }
    fail_k = 0;
    fflush (fo);     /* after an abort or a hang the reply shows which call did not come back */
}

static void begin_history (void)
{
    nimg = 0; nblk = 0; badfree = 0; cache = NULL;
    memset (alive, 0, sizeof alive); memset (ext, 0, sizeof ext);
}

/* summary + the harness's own cleanup (anything left in the table after it is a leak) */
static void end_history (void)
{
    int first = 1;
    fprintf (fo, " | ");
    for (int i = 0; i < nimg; i++) if (held (i)) { if (!first) fputc (' ', fo); first = 0; obs (i); }
    fprintf (fo, " | live=%d uaf=0 stuck=0 badfree=%d cache=", nblk, badfree);
    if (cache) fprintf (fo, "%d:%d", cache->freeze_count, cache->n_glyphs); else fprintf (fo, "-");
    for (int i = 0; i < nimg; i++) while (ext[i] > 0) { ext[i]--; LIB (pixman_image_unref (imgs[i])); }
    if (cache) { while (cache->freeze_count > 0) LIB (pixman_glyph_cache_thaw (cache)); while (cache->freeze_count < 0) LIB (pixman_glyph_cache_freeze (cache)); LIB (pixman_glyph_cache_destroy (cache)); cache = NULL; }
    if (nblk) fprintf (fo, " LEAK-AFTER-CLEANUP=%d", nblk);
    while (nblk) __real_free (blk[--nblk]);     /* reported above; keep LeakSanitizer for what the table cannot see */
    fprintf (fo, "\n"); fflush (fo);
    for (int i = 0; i < nimg; i++) { free (clientbuf[i]); clientbuf[i] = NULL; }
}

/* ---------------------------------------------------------------- generator */
static FILE *fops;
/* the request is on disk before the library is called: after an abort or a hang the last
 * (unterminated) line of <ops_out> is the history that did it */
static void emit (const char *tok)
{
    char ft[200];
    /* 6% of the calls that allocate are issued with an allocation failure (1st .. 3rd request) */
    if (strchr ("BSLRCTFKk", tok[0]) ? tok[1] == ':' || tok[1] == 0 : !strncmp (tok, "GI:", 3))
        if (rng_chance (6)) { snprintf (ft, sizeof ft, "f%d/%s", 1 + rng_n (3) % (1 + rng_n (3)), tok); tok = ft; }
    fprintf (fops, " %s", tok); fflush (fops);
    fputc (' ', fo); exec_tok (tok);
}
static int pick_held (void) { int c[MAXIMG], n = 0; for (int i = 0; i < nimg; i++) if (held (i)) c[n++] = i; return n ? c[rng_n (n)] : -1; }
static int n_held (void) { int n = 0; for (int i = 0; i < nimg; i++) if (held (i)) n++; return n; }
static int pick_bits (void) { int c[MAXIMG], n = 0; for (int i = 0; i < nimg; i++) if (held (i) && imgs[i]->type == BITS) c[n++] = i; return n ? c[rng_n (n)] : pick_held (); }
static int edge (void) { static const int v[] = { 0, 1, -1, 2, 7, -32768, 32767, 100 }; return v[rng_n (8)]; }

static void gen_create (int style)
{
    char tok[96]; static const int dims[] = { 0, 1, 1, 2, 3, 5, 17 };
    int r = rng_n (100);
    if (style == 1 || r < 55) snprintf (tok, sizeof tok, "B:%d:%d:%d:%d", dims[rng_n (7)], dims[rng_n (7)], rng_chance (65), rng_n (NFMT));
    else if (r < 65) snprintf (tok, sizeof tok, "S");
    else snprintf (tok, sizeof tok, "%c:%d", "LRC"[rng_n (3)], rng_chance (8) ? 0 : rng_range (1, 5));
    emit (tok);
}

static void gen_history (void)
{
    char tok[160];
    int style = rng_n (5);          /* 0 mixed, 1 alpha maps, 2 resources, 3 glyph cache, 4 mixed long */
    int len = style == 4 ? rng_range (30, 70) : rng_range (3, 30);
    int pool = rng_range (2, 6);
    begin_history ();
    fprintf (fops, "hist");
    for (int s = 0; s < len && nimg < MAXIMG - 8; s++) {
        int nh = n_held ();
        int r = rng_n (100);
        if (nh == 0 || (nh < pool && r < (s < pool ? 70 : 12))) { gen_create (style); continue; }
        int i = pick_held ();
        int wa = style == 1 ? 50 : style == 0 || style == 4 ? 22 : 8;      /* alpha map */
        int wr = style == 2 ? 45 : style == 1 ? 5 : 25;                    /* owned resources */
        int wg = style == 3 ? 45 : style == 0 || style == 4 ? 12 : 3;      /* glyph cache */
        r = rng_n (wa + wr + wg + 30);
        if (r < wa) {
            int m, k = rng_n (100);
            int par = -1;
            for (int q = 0; q < nimg; q++) if (held (q) && imgs[q]->common.alpha_map && (par < 0 || rng_chance (40))) par = q;
            if (k < 12) snprintf (tok, sizeof tok, "A:%d:-:%d:%d", i, edge (), edge ());
            else if (k < 30 && par >= 0) {
                /* the map of a held parent, passed again (same image: only the origin moves; another image:
                 * a second parent), with the client's own reference to the map still there or already dropped */
                int a = id_of (imgs[par]->common.alpha_map);
                if (held (a) && rng_chance (50)) { snprintf (tok, sizeof tok, "u:%d", a); emit (tok); }
                if (a >= 0 && (held (a) || borrowed (a)))
                    snprintf (tok, sizeof tok, "A:%d:%d:%d:%d", rng_chance (70) ? par : pick_bits (), a, edge (), edge ());
                else snprintf (tok, sizeof tok, "A:%d:-:%d:%d", i, edge (), edge ());
            }
            else {
                if (k < 22) m = i;                                   /* self */
                else if (k < 40) {                                    /* something that already is / has a map */
                    m = pick_held ();
                    for (int q = 0; q < nimg; q++) if (held (q) && imgs[q]->common.alpha_map && rng_chance (50)) { int a = id_of (imgs[q]->common.alpha_map); m = rng_chance (50) && held (a) ? a : q; }
                } else if (k < 90) m = pick_bits (); else m = pick_held ();
                if (rng_chance (50)) i = pick_bits ();
                snprintf (tok, sizeof tok, "A:%d:%d:%d:%d", i, m, edge (), edge ());
            }
        } else if (r < wa + wr) {
            int k = rng_n (100);
            if (k < 25) { if (rng_chance (20)) snprintf (tok, sizeof tok, "T:%d:-", i); else snprintf (tok, sizeof tok, "T:%d:%d", i, rng_n (4)); }
            else if (k < 50) {
                int flt = rng_n (7);
                if (flt == 5) snprintf (tok, sizeof tok, "F:%d:5:65536,65536,65536", i);
                else if (flt == 6) snprintf (tok, sizeof tok, "F:%d:6:%s", i, rng_chance (30) ? "65536,65536,0,0,65536" : rng_chance (50) ? "65536,65536,0,0,65536,65536" : "65536,131072,65536,0,32768,32768,65536,0");
                else { static const char *ps[] = { "-", "-", "e", "1", "65536,0", "1,2,3,4,5,6,7" }; snprintf (tok, sizeof tok, "F:%d:%d:%s", i, flt, ps[rng_n (6)]); }
            }
            else if (k < 80) { static const int ns[] = { 0, 1, 2, 2, 3, 5, 9, 20 }; if (rng_chance (15)) snprintf (tok, sizeof tok, "%c:%d:-", rng_chance (50) ? 'K' : 'k', i); else snprintf (tok, sizeof tok, "%c:%d:%d", rng_chance (60) ? 'K' : 'k', i, ns[rng_n (8)]); }
            else if (k < 97) snprintf (tok, sizeof tok, "D:%d:%d:%d", i, rng_chance (85), rng_range (1, 99));
            else if (rng_chance (25)) snprintf (tok, sizeof tok, "I:%d:-", i); else snprintf (tok, sizeof tok, "I:%d:%d", i, rng_n (2));
        } else if (r < wa + wr + wg) {
            int k = rng_n (100);
            if (!cache) snprintf (tok, sizeof tok, "GC");
            else if (k < 15) snprintf (tok, sizeof tok, "GF");
            else if (k < 25) snprintf (tok, sizeof tok, "GT");
            else if (k < 65) { if (cache->freeze_count <= 0 && rng_chance (85)) emit ("GF"); snprintf (tok, sizeof tok, "GI:%d:%d", rng_n (6), rng_chance (85) ? pick_bits () : i); }
            else if (k < 92) snprintf (tok, sizeof tok, "GR:%d", rng_n (6));
            else snprintf (tok, sizeof tok, "GD");
        } else {
            if (rng_chance (45)) snprintf (tok, sizeof tok, "r:%d", i); else snprintf (tok, sizeof tok, "u:%d", i);
        }
        emit (tok);
    }
    if (rng_chance (90)) {       /* epilogue: the client drops everything it holds, in random order */
        int i;
        while ((i = pick_held ()) >= 0) { snprintf (tok, sizeof tok, "u:%d", i); emit (tok); }
        if (cache) { while (cache->freeze_count > 0) emit ("GT"); while (cache->freeze_count < 0) emit ("GF"); emit ("GD"); }
    }
    end_history ();
}

/* ------------------------------------------------------------------ re-entrant destroy callbacks (oracle only)
 * The destroy callback runs while the image is still intact and may legally call setters on it.  Scenarios: the callback
 * detaches / replaces the alpha map, replaces the transform, filter or clip.  Oracle: the alpha maps the application
 * still references are alive with exactly the application's references, every map's own destroy callback fires exactly
 * once and only at its last unref, and the allocation census returns to its starting value. */
static int re_mode, re_fired[4]; static pixman_image_t *re_other;
static long nlive_blocks (void) { return nblk; }
static void re_map_destroy (pixman_image_t *im, void *data) { re_fired[(int)(intptr_t)data]++; }
static void re_destroy (pixman_image_t *im, void *data)
{
    re_fired[0]++;
    if (re_mode == 1) pixman_image_set_alpha_map (im, NULL, 0, 0);
    if (re_mode == 2) pixman_image_set_alpha_map (im, re_other, 1, 1);
    if (re_mode == 3) { pixman_transform_t t; pixman_transform_init_scale (&t, pixman_int_to_fixed (2), pixman_int_to_fixed (3)); pixman_image_set_transform (im, &t); }
    if (re_mode == 4) { pixman_fixed_t k[3] = { pixman_int_to_fixed (1), pixman_int_to_fixed (1), pixman_fixed_1 }; pixman_image_set_filter (im, PIXMAN_FILTER_CONVOLUTION, k, 3); }
    if (re_mode == 5) { pixman_region32_t r; pixman_region32_init_rect (&r, 0, 0, 3, 3); pixman_region32_union_rect (&r, &r, 5, 5, 2, 2); pixman_image_set_clip_region32 (im, &r); pixman_region32_fini (&r); }
    if (re_mode == 6) pixman_image_set_alpha_map (im, NULL, 0, 0), pixman_image_set_alpha_map (im, re_other, 0, 0), pixman_image_set_alpha_map (im, NULL, 0, 0);
}
static int run_reentrant (void)
{
    int bad = 0;
    in_lib = 1; fail_cd = 0; badfree = 0;
    for (int mode = 0; mode <= 6; mode++) for (int pre = 0; pre < 2; pre++) {
        long live0 = nlive_blocks ();
        pixman_image_t *a = pixman_image_create_bits (PIXMAN_a8r8g8b8, 8, 8, NULL, 0), *m = pixman_image_create_bits (PIXMAN_a8, 8, 8, NULL, 0), *o = pixman_image_create_bits (PIXMAN_a8, 8, 8, NULL, 0);
        if (!a || !m || !o) { printf ("reentrant: allocation failed\n"); return 1; }
        memset (re_fired, 0, sizeof re_fired); re_mode = mode; re_other = o;
        pixman_image_set_destroy_function (m, re_map_destroy, (void *)(intptr_t)1); pixman_image_set_destroy_function (o, re_map_destroy, (void *)(intptr_t)2);
        pixman_image_set_alpha_map (a, m, 0, 0);
        if (pre) { pixman_transform_t t; pixman_transform_init_identity (&t); t.matrix[0][2] = 77; pixman_image_set_transform (a, &t);
                   pixman_region32_t r; pixman_region32_init_rect (&r, 0, 0, 2, 2); pixman_region32_union_rect (&r, &r, 4, 4, 2, 2); pixman_image_set_clip_region32 (a, &r); pixman_region32_fini (&r); }
        pixman_image_set_destroy_function (a, re_destroy, NULL);
        int ret = pixman_image_unref (a);
        if (!ret) { printf ("reentrant mode %d pre %d: last unref returned FALSE\n", mode, pre); bad = 1; }
        if (re_fired[0] != 1) { printf ("reentrant mode %d pre %d: the image's destroy callback fired %d times\n", mode, pre, re_fired[0]); bad = 1; }
        if (re_fired[1] || re_fired[2]) { printf ("reentrant mode %d pre %d: an alpha map the application still references was destroyed (map %d, other %d)\n", mode, pre, re_fired[1], re_fired[2]); bad = 1; }
        else {
            if (m->common.ref_count != 1 || o->common.ref_count != 1) { printf ("reentrant mode %d pre %d: reference counts after the image died: map %d, other %d (application holds 1 each)\n", mode, pre, m->common.ref_count, o->common.ref_count); bad = 1; }
            if (m->common.ref_count >= 1) pixman_image_unref (m); if (o->common.ref_count >= 1) pixman_image_unref (o);
            if (re_fired[1] != 1 || re_fired[2] != 1) { printf ("reentrant mode %d pre %d: map destroy callbacks after the last unrefs: %d, %d\n", mode, pre, re_fired[1], re_fired[2]); bad = 1; }
        }
        if (!bad && nlive_blocks () != live0) { printf ("reentrant mode %d pre %d: %ld blocks still allocated\n", mode, pre, nlive_blocks () - live0); bad = 1; }
        if (!bad && badfree) { printf ("reentrant mode %d pre %d: %d frees of blocks that were not allocated (double free)\n", mode, pre, badfree); bad = 1; }
        if (bad) return 1;
    }
    printf ("reentrant ok\n");
    return 0;
}

int main (int argc, char **argv)
{
    if (argc == 2 && !strcmp (argv[1], "reentrant")) return run_reentrant ();
    if (argc == 6 && !strcmp (argv[1], "gen")) {
        fops = fopen (argv[4], "w"); fo = fopen (argv[5], "w"); if (!fops || !fo) return 2;
        rng_seed (strtoull (argv[2], NULL, 10));
        int n = atoi (argv[3]);
        for (int k = 0; k < n; k++) { gen_history (); fprintf (fops, "\n"); fflush (fops); }
        return 0;
    }
    if (argc == 4 && !strcmp (argv[1], "exec")) {
        FILE *fi = fopen (argv[2], "r"); fo = fopen (argv[3], "w"); if (!fi || !fo) return 2;
        static char buf[1 << 16];
        while (fgets (buf, sizeof buf, fi)) {
            char *s = strtok (buf, " \r\n");
            if (!s || strcmp (s, "hist")) { fprintf (fo, "bad-op\n"); fflush (fo); continue; }
            begin_history ();
            int first = 1;
            while ((s = strtok (NULL, " \r\n"))) { if (!first) fputc (' ', fo); first = 0; exec_tok (s); }
            end_history ();
        }
        return 0;
    }
    fprintf (stderr, "usage: lifetime gen <seed> <n> <ops_out> <impl_out> | lifetime exec <ops_in> <impl_out>\n");
    return 2;
}
